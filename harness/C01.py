"""C01 - ws2d returns the exact penalised least-squares solution (DESIGN 5, C01). Regime 1 (exact-linear, QF_LRA)."""
import itertools
import json
from fractions import Fraction as F

import z3

from . import common as C
from pysym import vals as V
from pysym.interp import State

PID = "C01"
LAMBDAS = [F(1, 10**6), F(1, 1000), F(3, 10), F(1), F(10), F(1000), F(10**5), F(10**8)]


def penalty_matrix(n, lam, w):
    """A = W + lam * D'D with D the second-difference operator (built from the definition)."""
    A = [[F(0)] * n for _ in range(n)]
    for i in range(n):
        A[i][i] += F(w[i])
    for r in range(n - 2):
        row = {r: F(1), r + 1: F(-2), r + 2: F(1)}
        for i, a in row.items():
            for j, b in row.items():
                A[i][j] += lam * a * b
    return A


def worker(w, cfg):
    n, lam = cfg["n"], F(cfg["lam"])
    ys = [z3.Real(f"y{i}") for i in range(n)]
    long_series = bool(cfg.get("long"))
    for wv in cfg["weights"]:
        wv = [F(x) for x in wv]
        if long_series:
            # long series: y is symbolic at the first / middle / last weighted sample and at one unweighted sample, fixed integers elsewhere
            pos = [i for i in range(n) if wv[i] > 0]
            sym = {pos[0], pos[len(pos) // 2], pos[-1]} | {i for i in range(n) if wv[i] == 0 and i in (n - 1, n // 2)}
            ys = [z3.Real(f"y{i}") if i in sym else z3.RealVal((i * 37) % 101 - 50) for i in range(n)]
        it = C.new_interp(policy="exact")
        fn = it.get_function("hdc.algo.ops.ws2d", "ws2d")
        st = State()
        y = it.new_array(st, (n,), "float64", cells=list(ys))
        ww = it.new_array(st, (n,), "float64", cells=[V.fr(x) for x in wv])
        y.readonly = ww.readonly = True
        sub = {"n": n, "lam": str(lam), "w": [str(x) for x in wv]}
        w.config = sub
        try:
            z = it.call_function(st, fn, [y, V.fr(lam), ww])
        except V.Unsupported as e:
            # e.g. a concrete zero pivot -> non-finite values: that *is* a failed obligation
            w.res.candidates.append({"obligation": "ws2d.evaluates", "config": sub, "known": None,
                                     "input": {"y": [1] * n, "w": [float(x) for x in wv], "lam": float(lam), "why": str(e)}})
            w.res.queries.append({"name": "ws2d.evaluates", "verdict": "sat", "time": 0, "hash": "eval" + str(sub), "nvars": 0,
                                  "config": sub})
            continue
        w.res.encoded.update(it.encoded)
        if not hasattr(z, "positions") or z.shape != (n,):
            # returned something that is not a length-n array
            w.res.candidates.append({"obligation": "ws2d.shape", "config": sub, "known": None,
                                     "input": {"y": list(range(n)), "w": [float(x) for x in wv], "lam": float(lam)}})
            continue
        zs = it.arr_values(st, z)

        def conc(m, wv=wv):
            return {"y": [C.model_value(m, v) for v in ys], "w": [x for x in wv], "lam": lam}
        if any(V.is_nonfinite(v) for v in zs):
            w.res.candidates.append({"obligation": "ws2d.finite", "config": sub, "known": None,
                                     "input": C.jsonable({"y": [1] * n, "w": wv, "lam": lam})})
            continue
        A = penalty_matrix(n, lam, wv)
        rows = []
        for i in range(n):
            lhs = z3.Sum([z3.RealVal(A[i][j]) * V.to_real(zs[j]) for j in range(n) if A[i][j] != 0])
            rows.append(lhs == z3.RealVal(wv[i]) * ys[i])
        w.discharge("ws2d.normal_equations", [], z3.And(*rows), concretize=conc, sample=True)
        for ob in it.obligations:
            w.discharge(f"ws2d.{ob.kind}@{ob.where}", [], ob.claim, guard=ob.guard, concretize=conc)
        if long_series:
            continue
        # uniqueness of the minimiser (property of the system the code is compared against)
        us = [z3.Real(f"u{i}") for i in range(n)]
        hom = [z3.Sum([z3.RealVal(A[i][j]) * us[j] for j in range(n)]) == 0 for i in range(n)]
        w.discharge("reference.unique_solution", hom, z3.And(*[u == 0 for u in us]))


def weight_vectors(n, tier):
    out = []
    exh = 8 if tier == "quick" else 10
    if n <= exh:
        for bits in itertools.product([0, 1], repeat=n):
            if sum(bits) >= 2:
                out.append([F(b) for b in bits])
    else:
        seen = set()

        def add(v):
            if sum(1 for x in v if x) >= 2 and tuple(v) not in seen:
                seen.add(tuple(v))
                out.append([F(x) for x in v])
        for k in range(0, n - 1):
            add([0] * k + [1] * (n - k))           # leading zero run
            add([1] * (n - k) + [0] * k)           # trailing zero run
            for s in range(1, n - k):
                if s + k < n:
                    add([1] * s + [0] * k + [1] * (n - s - k))  # interior run
        add([i % 2 for i in range(n)])
        add([(i + 1) % 2 for i in range(n)])
        for i in range(n):
            for j in range(i + 1, n):
                add([1 if t in (i, j) else 0 for t in range(n)])   # exactly two positive weights
    return out


def graded_vectors(n, tier):
    out = []
    gmax = 5 if tier == "quick" else 6
    if n > gmax:
        return out
    sets = [[F(0), F(1, 10), F(9, 10)], [F(0), F(1, 2)], [F(0), F(1, 9), F(4, 9), F(1)]]
    seen = set()
    for s in sets:
        if len(s) ** n > 5000:
            continue
        for v in itertools.product(s, repeat=n):
            if sum(1 for x in v if x > 0) >= 2 and not all(x in (0, 1) for x in v) and v not in seen:
                seen.add(v)
                out.append(list(v))
    return out


def configs(tier):
    nmax = 8 if tier == "quick" else 12
    cf = []
    for n in range(4, nmax + 1):
        wvs = weight_vectors(n, tier) + graded_vectors(n, tier)
        for lam in LAMBDAS:
            # chunk to keep worker tasks balanced
            for k in range(0, len(wvs), 64):
                cf.append({"n": n, "lam": str(lam), "weights": [[str(x) for x in v] for v in wvs[k:k + 64]]})
    # long series (behaviour that only shows beyond a length threshold or after long runs of equal / zero weights): y symbolic at
    # four samples, fixed elsewhere
    longs = [(140, "1", [1] * 140), (140, "100", [1] * 140), (50, "1/1000000", [1] * 10 + [0] * 40), (50, "1/1000000", [0] * 40 + [1] * 10),
             (90, "1/100000", [1] * 15 + [0] * 75)]
    if tier == "thorough":
        longs += [(200, "10", [1] * 200), (260, "1", [1] * 100 + [0] * 30 + [1] * 130), (160, "1/1000000", [1] * 20 + [0] * 60 + [1] * 80),
                  (160, "1/1000", [i % 2 for i in range(160)]), (300, "1000", [1] * 300)]
    for n, lam, wv in longs:
        cf.append({"n": n, "lam": lam, "weights": [[str(x) for x in wv]], "long": True})
    return cf


def validate(chk, seed):
    import random
    rnd = random.Random(seed)
    cases = []
    ts = [5.0, 10.0, 15.0, 20.0, 30.0, 25.0, 20.0, 15.0, 10.0, 5.0]
    cases.append((ts, 10.0, [1.0] * 10))
    for _ in range(20):
        n = rnd.randint(4, 12)
        y = [float(rnd.randint(-1000, 1000)) for _ in range(n)]
        wv = [float(rnd.choice([0, 1, 1, 0.5])) for _ in range(n)]
        if sum(1 for x in wv if x) < 2:
            wv[0] = wv[-1] = 1.0
        cases.append((y, 10 ** rnd.uniform(-3, 4), wv))
    for y, lam, wv in cases:
        it = C.new_interp(concrete=True)
        fn = it.get_function("hdc.algo.ops.ws2d", "ws2d")
        st = State()
        ya = it.new_array(st, (len(y),), "float64", cells=list(y))
        wa = it.new_array(st, (len(y),), "float64", cells=list(wv))
        mine = it.arr_values(st, it.call_function(st, fn, [ya, lam, wa]))
        real = chk.replayer.call("call", fn="hdc.algo.ops.ws2d:ws2d",
                                 args=[{"nd": y, "dtype": "float64"}, lam, {"nd": wv, "dtype": "float64"}])["value"]
        chk.validate("ws2d", mine, real)


def replay_candidate(chk, c):
    inp = c["input"]
    r = chk.replayer.call("c01_ws2d", y=inp["y"], w=inp["w"], lam=inp["lam"])
    return bool(r["violates"]), r


def main(tier, seed, nproc=None):
    chk = C.Check(PID, tier, seed)
    nmax = 8 if tier == "quick" else 12
    chk.assumptions = ["floats are exact reals (the float64 relative-error clause of C01 is outside the claim)",
                       "weights and lambda are configuration (rational constants), y is symbolic"]
    chk.bounds = {"n": f"4..{nmax}", "weights": "every 0/1 vector with >= 2 ones (n <= 8 quick / 10 thorough), structured "
                  "zero-run families above; graded vectors over {0,.1,.9}, {0,.5}, {0,1/9,4/9,1} (n <= 5 quick / 6 thorough)",
                  "lambda": [str(x) for x in LAMBDAS], "y": "all real vectors (symbolic)"}
    chk.outside = ["symbolic weights / lambda (NRA: z3 and cvc5 unknown, DESIGN 3)", "float64 rounding error clause", f"n > {nmax}"]
    validate(chk, seed)
    chk.run(worker, configs(tier), nproc)
    chk.confirm(lambda c: replay_candidate(chk, c))
    return chk.finish(
        rule="per (n, weight vector, lambda): normal-equation identity for all y, zero-pivot obligations, uniqueness of the "
             "reference system; non-trivial = reaches z3 with >= 1 free variable; distinct by goal hash",
        explanation="ws2d is executed symbolically on y in R^n with rational w and lambda; the solver decides (W+lam D'D) z = W y "
                    "row-wise for all y")


def replay(path):
    chk = C.Check(PID, "quick", 0)
    c = json.load(open(path))
    ok, detail = replay_candidate(chk, c)
    chk.replayer.close()
    print(json.dumps(detail, default=str)[:2000])
    if ok:
        print(f"VIOLATION property={PID} replay={path}")
        return 1
    return 0
