"""C02 - missing observations carry zero weight in every smoother (DESIGN 5, C02). Two symbolic executions sharing the data."""
import json

import z3

from . import common as C
from . import smooth as S
from pysym import vals as V
from pysym.interp import State
from pysym.vals import Unsupported

PID = "C02"
MIN_VALID = {"ws2dgu": 2, "ws2dpgu": 2, "ws2doptv": 2, "ws2doptvp": 2, "ws2doptvplc": 2, "ws2dwcv": 5, "ws2dwcvp": 5}


def kernel_args(kname, cells, nd, par):
    a = {"y": cells, "nodata": z3.ToReal(nd) if V.is_sym(nd) else float(nd)}
    if kname in ("ws2dgu", "ws2dpgu"):
        a["lmda"] = par["lam"]
    if kname in ("ws2dpgu", "ws2doptvp", "ws2doptvplc", "ws2dwcvp"):
        a["p"] = par["p"]
    if kname in ("ws2doptv", "ws2doptvp", "ws2dwcv", "ws2dwcvp"):
        a["llas"] = par["llas"]
    if kname == "ws2doptvplc":
        a["lc"] = par["lc"]
    if kname in ("ws2dwcv", "ws2dwcvp"):
        a["robust"] = par["robust"]
    return a


def params(kname, cfg):
    lam, p = z3.Real("lam"), z3.Real("p")
    facts = [lam > 0, p > 0, p < 1]
    llas, gf, _ = S.grid_terms(cfg.get("grid", 3))
    par = {"lam": lam, "p": p, "llas": llas, "robust": cfg.get("robust", False), "lc": V.fr(cfg.get("lc", 0.7))}
    return par, facts + gf


def cells_of(kname, px, nd, special=None):
    if kname == "ws2doptvplc":
        if special is not None:
            raise Unsupported("int16 kernel has no non-finite cells")
        return [x if v else nd for x, v in zip(px.xs, px.valid)]
    return px.cells(nd, special)


def w_independence(w, cfg):
    kname, valid, special = cfg["kernel"], cfg["valid"], cfg.get("special")
    n = len(valid)
    tag = f"{kname}[{'robust' if cfg.get('robust') else 'plain'}{',' + special if special else ''}]"
    kp = known_preds(cfg)

    emitted = []

    def build(abstract):
        it = S.new_interp()
        if abstract:
            if special is not None:
                raise Unsupported("non-finite cells: ws2d is inlined")
            S.abstract_ws2d(it)
        px = S.Pixel(n, valid)
        nd1, nd2 = z3.Int("nd1"), z3.Int("nd2")
        par, pfacts = params(kname, cfg)
        facts = px.facts(nd1) + px.facts(nd2) + pfacts + [nd1 != nd2]
        it.assume(*facts)
        st1, st2 = State(), State()
        if special is None and kname != "ws2doptvplc":
            it.A.watch = {"nd1", "nd2"}      # float64 kernels: the placeholder may be as large as the dtype allows (GDAL's 'lowest')
        r1 = S.call_kernel(it, st1, kname, kernel_args(kname, cells_of(kname, px, nd1), nd1, par))
        n_ob = len(it.obligations)
        r2 = S.call_kernel(it, st2, kname, kernel_args(kname, cells_of(kname, px, nd2, special), nd2, par))

        def conc(m, huge=False):
            d = {"kernel": kname, "huge": huge, "data": [C.model_value(m, x) if v else None for x, v in zip(px.xs, px.valid)],
                 "nd1": C.model_value(m, nd1), "nd2": C.model_value(m, nd2), "special": special, "robust": cfg.get("robust", False),
                 "lc": cfg.get("lc", 0.7), "grid": cfg.get("grid", 3)}
            for k in ("lam", "p"):
                d[k] = C.model_value(m, par[k])
            d["l0"] = C.model_value(m, z3.Real("l0"))
            d["lstep"] = C.model_value(m, z3.Real("lstep"))
            return d
        claims = []
        kw = {"known_preds": kp}
        if sum(valid) < MIN_VALID[kname]:
            # (c) too few valid observations: returned unchanged, lambda reported as 0
            cells = cells_of(kname, px, nd1)
            claims.append((f"{tag}.too_few_valid_passthrough", z3.And(*[S.eq(o, c) for o, c in zip(r1["out"], cells)]), dict(kw)))
            if r1["lopt"] is not None:
                claims.append((f"{tag}.too_few_valid_lambda_zero", S.eq(r1["lopt"], 0), dict(kw)))
            if special is not None:
                # the same with (some of) the missing cells NaN / inf: every finite cell comes back unchanged, lambda 0
                cells2 = cells_of(kname, px, nd2, special)
                fin = [(o, c) for o, c in zip(r2["out"], cells2) if not V.is_nonfinite(c)]
                bad = any(V.is_nonfinite(o) for o, _ in fin)
                claims.append((f"{tag}.too_few_valid_passthrough_of_finite_cells",
                               z3.BoolVal(False) if bad else z3.And(*[S.eq(o, c) for o, c in fin]) if fin else z3.BoolVal(True), dict(kw)))
                if r2["lopt"] is not None:
                    claims.append((f"{tag}.too_few_valid_lambda_zero_with_nonfinite_cells",
                                   z3.BoolVal(False) if V.is_nonfinite(r2["lopt"]) else S.eq(r2["lopt"], 0), dict(kw)))
        else:
            for i in range(n):
                a, b = r1["out"][i], r2["out"][i]
                claim = z3.BoolVal(False) if (V.is_nonfinite(a) or V.is_nonfinite(b)) else S.eq(a, b)
                claims.append((f"{tag}.output_independent_of_placeholder[{i}]", claim, dict(kw, sample=(i == 0 and not abstract))))
            if r1["lopt"] is not None:
                a, b = r1["lopt"], r2["lopt"]
                claim = z3.BoolVal(False) if (V.is_nonfinite(a) or V.is_nonfinite(b)) else S.eq(a, b)
                claims.append((f"{tag}.lambda_independent_of_placeholder", claim, dict(kw)))
            if special is not None:
                for k, ob in enumerate(it.obligations):
                    if ob.kind == "cast-range" and k >= n_ob:
                        claims.append((f"{tag}.nonfinite_reaches_output", ob.claim, dict(kw, guard=ob.guard)))
                        break
        if it.A.watch_hits and not emitted:
            emitted.append(True)
            # a placeholder-dependent value is multiplied by another unknown before its zero weight removes it: with a placeholder
            # near the float64 limit that product overflows (inf * 0 = NaN). Reaching such a product is the obligation (claim False):
            # the solver only has to produce data satisfying the input assumptions, the replayer runs it with the huge placeholder
            name = f"{tag}.placeholder_magnitude_never_enters_a_product_of_unknowns"
            v, m, dt = C.check_sat(list(facts), 20000)
            w.res.queries.append({"name": name, "verdict": "sat" if v == "sat" else v, "time": round(dt, 4), "hash": "watch:" + name + str(cfg["valid"]),
                                  "nvars": 1, "config": w.config})
            if v == "sat":
                w.res.candidates.append({"obligation": name, "config": w.config, "known": None, "input": C.jsonable(conc(m, huge=True))})
        return {"assume": facts + it.cast_assumptions, "lemmas": list(it.A.lemmas), "claims": claims, "conc": conc,
                "encoded": dict(it.encoded), "facts": facts}
    S.two_stage(w, build, inline=not cfg.get("robust"))
    px = S.Pixel(n, valid)
    w.vacuity(f"{tag}.assumptions", px.facts(z3.Int("nd1")) + px.facts(z3.Int("nd2")))


def known_preds(cfg):
    """Predicates of the known findings over the harness configuration (constant per configuration)."""
    t = z3.BoolVal(True)
    f = z3.BoolVal(False)
    return {
        "C02-nonfinite-cells": t if cfg.get("special") else f,
        "C02-robust-placeholder": t if (cfg.get("robust") and not cfg.get("special") and not all(cfg["valid"])) else f,
    }


def worker(w, cfg):
    w_independence(w, cfg)


def configs(tier):
    cf = []
    nmax = 5 if tier == "quick" else 6
    for kname in S.KERNELS:
        if kname == "ws2doptvplc":
            continue
        for n in range(4, nmax + 1):
            for valid in S.gap_patterns(n):
                if all(valid):
                    continue
                grid = 3 if tier == "quick" else 4
                if kname in ("ws2dwcv", "ws2dwcvp"):
                    if sum(valid) < 5 and not (n <= 5):
                        continue
                    cf.append({"kernel": kname, "valid": valid, "robust": False, "grid": 2 if tier == "quick" else 3})
                else:
                    cf.append({"kernel": kname, "valid": valid, "grid": grid})
    # GCV kernels need >= 5 valid cells: n = 6/7 with one or two gaps; robust on and off
    for kname in ("ws2dwcv", "ws2dwcvp"):
        for n in ((6,) if tier == "quick" else (6, 7)):
            for valid in S.gap_patterns(n, 5):
                if all(valid):
                    continue
                cf.append({"kernel": kname, "valid": valid, "robust": False, "grid": 2})
                if n == 6:
                    cf.append({"kernel": kname, "valid": valid, "robust": True, "grid": 2})
    # NaN / inf placeholders for the kernels that test for them
    for kname in sorted(S.NONFINITE_AWARE):
        n = 4 if kname in ("ws2dgu", "ws2dpgu") else 6
        for valid in S.gap_patterns(n, 2 if n == 4 else 5):
            if all(valid):
                continue
            for sp in ("nan", "inf", "-inf"):
                cf.append({"kernel": kname, "valid": valid, "special": sp, "robust": False, "grid": 2})
            if valid.count(False) >= 2:
                # mixed encodings: some missing cells hold the placeholder, the others NaN / inf
                for sp in ("mix-nan", "mix2-inf") if tier == "quick" else ("mix-nan", "mix2-nan", "mix-inf", "mix2-inf", "mix--inf"):
                    cf.append({"kernel": kname, "valid": valid, "special": sp, "robust": False, "grid": 2})
        # fewer valid cells than the kernel needs, missing cells NaN / inf / mixed: finite cells come back unchanged
        few = [v for v in S.gap_patterns(4 if n == 4 else 5) if sum(v) < MIN_VALID[kname]]
        for valid in few:
            if n != 4 and sum(valid) < 3 and tier == "quick":
                continue
            for sp in ("nan", "mix-nan", "mix2-inf"):
                if sp.startswith("mix") and valid.count(False) < 2:
                    continue
                cf.append({"kernel": kname, "valid": valid, "special": sp, "robust": False, "grid": 2})
    # the autocorrelation-grid variant: concrete 16-point grids, lc on either side of the threshold
    for lc in (0.7, 0.3):
        for valid in ([True, False, True, True], [False, True, True, True], [True, True, True, False]):
            cf.append({"kernel": "ws2doptvplc", "valid": valid, "lc": lc})
    return cf


def validate(chk, seed):
    import random
    rnd = random.Random(seed)
    for kname in S.KERNELS:
        for _ in range(3):
            n = rnd.randint(6, 10)
            nd = -3000
            y = [rnd.choice([nd] + [rnd.randint(100, 9000)] * 5) for _ in range(n)]
            par = {"lam": 10 ** rnd.uniform(-1, 3), "p": rnd.choice([0.1, 0.9]), "llas": [-1.0, 0.0, 1.0, 2.0], "robust": False, "lc": 0.7}
            it = C.new_interp(concrete=True)
            st = State()
            cells = [float(v) for v in y] if kname != "ws2doptvplc" else list(y)
            args = kernel_args(kname, cells, nd, par)
            args["nodata"] = float(nd)
            try:
                mine = S.call_kernel(it, st, kname, args)
            except Exception as e:  # noqa
                chk.notes.append(f"concrete evaluation of {kname} failed: {e}")
                chk.validation["mismatches"] += 1
                continue
            names = S.KERNELS[kname][1]
            ra = []
            for nm in names:
                v = args[nm]
                if nm == "y":
                    ra.append({"nd": y, "dtype": "int16" if kname == "ws2doptvplc" else "float64"})
                elif nm == "llas":
                    ra.append({"nd": v, "dtype": "float64"})
                else:
                    ra.append(v)
            real = chk.replayer.call("call", fn=f"hdc.algo.ops:{kname}", args=ra)["value"]
            if mine["lopt"] is not None:
                chk.validate(kname, [mine["out"], mine["lopt"]], [real[0], real[1]], tol=1e-6)
            else:
                chk.validate(kname, mine["out"], real)


def replay_candidate(chk, c):
    r = chk.replayer.call("c02_placeholder", **c["input"])
    return bool(r["violates"]), r


def main(tier, seed, nproc=None):
    chk = C.Check(PID, tier, seed)
    chk.assumptions = ["valid cells are integers with |x| <= 10000 and differ from both placeholders; floats are exact reals",
                       "results outside int16 are outside the claim", "regime 3 (uninterpreted products/quotients); candidates are replayed"]
    chk.bounds = {"n": "4..5 quick / 6 thorough (GCV: 6 / 7)", "gap patterns": "all with at least one gap", "grid": "symbolic start/step, 2-4 entries; "
                  "ws2doptvplc: its two concrete 16-point grids, n = 4", "placeholders": "two symbolic integers; NaN / +inf / -inf for the NaN-aware kernels"}
    chk.outside = ["series longer than the bound", "robust iterations beyond the kernel's 4", "float rounding"]
    validate(chk, seed)
    chk.run(worker, configs(tier), nproc)
    chk.confirm(lambda c: replay_candidate(chk, c))
    return chk.finish(
        rule="per kernel, gap pattern and placeholder encoding: cell-wise equality of the two runs, equal lambda, passthrough for too few valid "
             "cells, no non-finite value at the int16 store; non-trivial = >= 1 free variable; distinct by goal hash",
        explanation="each smoother is executed twice on the same symbolic data with two different placeholders (2-safety); with correct "
                    "zero weights the placeholder vanishes from every term")


def replay(path):
    chk = C.Check(PID, "quick", 0)
    c = json.load(open(path))
    ok, detail = replay_candidate(chk, c)
    chk.replayer.close()
    print(json.dumps(detail, default=str)[:2000])
    if ok:
        print(f"VIOLATION property={PID} replay={path}")
        return 1
    return 0
