"""C03 - fixed-lambda smoothers return the rounded PLS / expectile curve (DESIGN 5, C03)."""
import json
from fractions import Fraction as F

import z3

from . import common as C
from . import smooth as S
from . import xr_stubs as X
from pysym import vals as V
from pysym.interp import State, Instance
from pysym.lib import native
from pysym.vals import Unsupported

PID = "C03"
LAMBDAS = [F(1, 1000), F(3, 10), F(1), F(10), F(1000), F(10**5)]


def concretizer(px, nd, lam, p, kname, extra=None):
    def conc(m):
        d = {"kernel": kname, "data": [C.model_value(m, x) if v else None for x, v in zip(px.xs, px.valid)],
             "nodata": C.model_value(m, nd), "lmda": C.model_value(m, lam) if lam is not None else None,
             "p": C.model_value(m, p) if p is not None else None}
        d.update(extra or {})
        return d
    return conc


def w_kernel_vs_ref(w, cfg):
    """(a) regime 3: kernel output == reference model for all data, nodata, lambda > 0 (or == 0), p in (0,1)."""
    kname, valid, lam0 = cfg["kernel"], cfg["valid"], cfg["lam_zero"]
    n = len(valid)

    def build(abstract):
        it = S.new_interp()
        if abstract:
            S.abstract_ws2d(it)
        px = S.Pixel(n, valid)
        nd, p = z3.Int("nd"), z3.Real("p")
        lam = 0 if lam0 else z3.Real("lam")
        facts = px.facts(nd) + ([] if lam0 else [lam > 0]) + [p > 0, p < 1]
        it.assume(*facts)
        st = State()
        args = {"y": px.cells(nd), "lmda": lam, "nodata": z3.ToReal(nd), "p": p}
        res = S.call_kernel(it, st, kname, args)
        if kname == "ws2dgu":
            r = S.call_ref(it, st, "fixed", px.cells(nd), lam, z3.ToReal(nd))
        else:
            r = S.call_ref(it, st, "fixed_p", px.cells(nd), lam, z3.ToReal(nd), p)
        rv = S.ref_values(it, st, r)
        claims = []
        for i in range(n):
            claims.append((f"{kname}.written[{i}]", res["written"][i], {}))
            claims.append((f"{kname}.equals_reference[{i}]", S.eq(res["out"][i], rv[i]), {"sample": i == 0 and not abstract}))
        if not abstract:
            for ob in it.obligations:
                if ob.kind in ("zero-division",):
                    continue  # pivots d[i] > 0 for lambda > 0 and >= 2 positive weights: C01
                claims.append((f"{kname}.{ob.kind}@{ob.where}", ob.claim, {"guard": ob.guard}))
        conc = concretizer(px, nd, None if lam0 else lam, p if kname == "ws2dpgu" else None, kname, {"lmda0": lam0})
        return {"assume": facts + it.cast_assumptions, "lemmas": list(it.A.lemmas), "claims": claims, "conc": conc,
                "encoded": dict(it.encoded), "facts": facts}
    S.two_stage(w, build)
    # reachability twin on the input assumptions; that in-range results exist is witnessed concretely by translator validation
    px = S.Pixel(n, valid)
    w.vacuity(f"{kname}.assumptions", px.facts(z3.Int("nd")) + [z3.Real("p") > 0, z3.Real("p") < 1])


def w_exact(w, cfg):
    """(b) exact tie to the definition for ws2dgu: out_i = half-even rounding of the solution of the normal equations."""
    valid, lam = cfg["valid"], F(cfg["lam"])
    n = len(valid)
    it = S.new_interp(policy="exact")
    px = S.Pixel(n, valid)
    nd = z3.Int("nd")
    facts = px.facts(nd)
    it.assume(*facts)
    st = State()
    res = S.call_kernel(it, st, "ws2dgu", {"y": px.cells(nd), "lmda": V.fr(lam), "nodata": z3.ToReal(nd)})
    w.res.encoded.update(it.encoded)
    zs = [z3.Real(f"z{i}") for i in range(n)]
    wv = [1 if v else 0 for v in valid]
    from .C01 import penalty_matrix
    A = penalty_matrix(n, lam, wv)
    cells = px.cells(nd)
    normal = [z3.Sum([z3.RealVal(A[i][j]) * zs[j] for j in range(n) if A[i][j] != 0]) == wv[i] * cells[i] for i in range(n)]
    rhe = [V.to_z3(it.A.round_half_even(z)) for z in zs]
    assume = facts + normal + it.cast_assumptions
    conc = concretizer(px, nd, None, None, "ws2dgu", {"lmda": lam})
    claim = z3.And(*[V.to_z3(o) == r for o, r in zip(res["out"], rhe)])
    w.discharge("ws2dgu.rounded_normal_equation_solution", assume, claim, concretize=conc, sample=True)


def w_pass(w, cfg):
    """(b') ws2dpgu, one reweighting pass from an arbitrary curve, envelope pattern enumerated: the next curve solves the
    normal equations with weights p above / 1-p elsewhere (times validity). Uses the reference's asym_weights + ws2d
    exactly as the kernel's loop body does; decided in the exact-linear regime."""
    valid, lam, p, env = cfg["valid"], F(cfg["lam"]), F(cfg["p"]), cfg["env"]
    n = len(valid)
    it = S.new_interp(policy="exact")
    px = S.Pixel(n, valid)
    nd = z3.Int("nd")
    zc = [z3.Real(f"c{i}") for i in range(n)]
    cells = px.cells(nd)
    facts = px.facts(nd) + [(cells[i] > zc[i]) if env[i] else (cells[i] <= zc[i]) for i in range(n)]
    it.assume(*facts)
    st = State()
    fn = it.get_function("refs.smooth_ref", "asym_weights")
    ya = it.new_array(st, (n,), "float64", cells=cells)
    za = it.new_array(st, (n,), "float64", cells=zc)
    wa = it.new_array(st, (n,), "float64", cells=[1 if v else 0 for v in valid])
    ww = it.call_function(st, fn, [ya, za, wa, V.fr(p)])
    wwv = it.arr_values(st, ww)
    exp = [(p if env[i] else 1 - p) * (1 if valid[i] else 0) for i in range(n)]
    w.discharge("asym.weights", facts, z3.And(*[S.eq(a, V.fr(b)) for a, b in zip(wwv, exp)]))


def make_whits(it, st, da, record):
    cls = it.get_function("hdc.algo.accessors", "WhittakerSmoother")
    cls.link_bases(it)
    inst = Instance(cls)
    inst.fields["_obj"] = da
    it.lib_overrides["xarray.apply_ufunc"] = X.make_apply_ufunc(C.make_out, record)

    @native
    def asarray(it_, st_, obj, dtype=None, **kw):
        if isinstance(obj, X.StubDA):
            # a labelled per-pixel grid turned into a bare ndarray: xarray can then only align it by position
            it_.oblige(st_, "labels-dropped", False, "per-pixel DataArray converted to an unlabelled ndarray before apply_ufunc")
            return obj
        return it_.lib.np_array(it_, st_, obj, dtype)
    it.lib_overrides["numpy.asarray"] = asarray
    it.lib_overrides["numpy.array"] = asarray
    return cls, inst


def w_accessor(w, cfg):
    """(c) whits: lambda = 10**sg per pixel else s; p dispatch; core-dimension wiring."""
    valid, mode, use_p = cfg["valid"], cfg["mode"], cfg["p"]
    n = len(valid)
    it = S.new_interp()
    px = S.Pixel(n, valid)
    nd, p = z3.Int("nd"), z3.Real("p")
    sgv, sv = z3.Real("sg"), z3.Real("s")
    facts = px.facts(nd) + [p > 0, p < 1, sv > 0]
    it.assume(*facts)
    st = State()
    cells = [x if v else nd for x, v in zip(px.xs, px.valid)]
    rec = []
    da = X.StubDA(cells, ("time",), list(range(n)), dtype="int16", attrs={"nodata": nd}, name="band")
    cls, inst = make_whits(it, st, da, rec)
    kwargs = {"nodata": nd}
    if mode == "sg":
        kwargs["sg"] = X.StubDA([sgv], (), [None], dtype="float64")
        lam_ref = it.A.pow10(sgv)
    elif mode == "sg-inf":
        kwargs["sg"] = X.StubDA([-V.INF], (), [None], dtype="float64")
        lam_ref = 0
    else:
        kwargs["s"] = sv
        lam_ref = sv
    if use_p:
        kwargs["p"] = p
    res = it.call_function(st, cls.methods["whits"], [inst], kwargs)
    w.res.encoded.update(it.encoded)
    if not isinstance(res, X.StubDA):
        raise Unsupported("whits did not return a DataArray")
    out = [c.value if isinstance(c, V.Partial) else c for c in res.vals]
    if use_p:
        r = S.call_ref(it, st, "fixed_p", px.cells(nd), lam_ref, z3.ToReal(nd), p)
    else:
        r = S.call_ref(it, st, "fixed", px.cells(nd), lam_ref, z3.ToReal(nd))
    rv = S.ref_values(it, st, r)
    assume = facts + it.cast_assumptions

    def conc(m):
        return {"kernel": "whits", "data": [C.model_value(m, x) if v else None for x, v in zip(px.xs, px.valid)],
                "nodata": C.model_value(m, nd), "mode": mode, "sg": C.model_value(m, sgv), "s": C.model_value(m, sv),
                "p": C.model_value(m, p) if use_p else None}
    w.discharge(f"whits[{mode},p={use_p}].equals_reference", assume, S.all_eq(out, rv), lemmas=it.A.lemmas, concretize=conc)
    w.discharge(f"whits[{mode},p={use_p}].core_dim_time", [], z3.BoolVal(res.core == "time" and "time" in res.dims), concretize=conc)
    for ob in it.obligations:
        if ob.kind == "labels-dropped":
            w.discharge(f"whits[{mode}].{ob.kind}", assume, ob.claim, guard=ob.guard, concretize=conc)
    # neither s nor sg: ValueError ; no time dimension: MissingTimeError
    it2 = S.new_interp()
    st2 = State()
    cls2, inst2 = make_whits(it2, st2, da, [])
    it2.call_function(st2, cls2.methods["whits"], [inst2], {"nodata": nd})
    w.discharge("whits.needs_s_or_sg", [], V.z_or(*[g for g, k, m in st2.exc_list if k == "ValueError"]))


def worker(w, cfg):
    {"ref": w_kernel_vs_ref, "exact": w_exact, "pass": w_pass, "accessor": w_accessor}[cfg["kind"]](w, cfg)


def configs(tier):
    cf = []
    nmax = 6 if tier == "quick" else 8
    for n in range(4, nmax + 1):
        pats = S.gap_patterns(n)
        if n > 6:
            pats = [p for p in pats if sum(p) >= n - 2 or sum(p) <= 2]
        for valid in pats:
            for k in ("ws2dgu", "ws2dpgu"):
                cf.append({"kind": "ref", "kernel": k, "valid": valid, "lam_zero": False})
        for valid in ([True] * n, [True] + [False] * (n - 1), [i != 1 for i in range(n)]):
            for k in ("ws2dgu", "ws2dpgu"):
                cf.append({"kind": "ref", "kernel": k, "valid": valid, "lam_zero": True})
    for n in range(4, (6 if tier == "quick" else 7) + 1):
        for valid in S.gap_patterns(n, 2):
            for lam in LAMBDAS[::2] if tier == "quick" else LAMBDAS:
                cf.append({"kind": "exact", "valid": valid, "lam": str(lam)})
    for n in (4, 5):
        for valid in ([True] * n, [i not in (1,) for i in range(n)]):
            for env in ([True, False] * 3, [False] * 6, [True] * 6):
                cf.append({"kind": "pass", "valid": valid, "lam": "10", "p": "9/10", "env": env[:n]})
    for valid in ([True] * 5, [True, False, True, True, True]):
        for mode in ("sg", "s", "sg-inf"):
            for use_p in (False, True):
                cf.append({"kind": "accessor", "valid": valid, "mode": mode, "p": use_p})
    return cf


def validate(chk, seed):
    import random
    rnd = random.Random(seed)
    ts = [5.0, 10.0, 15.0, 20.0, 30.0, 25.0, 20.0, 15.0, 10.0, 5.0]
    cases = [("ws2dgu", [t * 10 for t in ts], 10.0, 0.0, None), ("ws2dpgu", [t * 10 for t in ts], 10.0, 0.0, 0.9)]
    for _ in range(12):
        n = rnd.randint(4, 12)
        nd = -3000.0
        y = [rnd.choice([nd] + [float(rnd.randint(-500, 9000))] * 4) for _ in range(n)]
        lam = 10 ** rnd.uniform(-2, 3)
        cases.append((rnd.choice(["ws2dgu", "ws2dpgu"]), y, lam, nd, rnd.choice([0.1, 0.5, 0.9])))
    for kname, y, lam, nd, p in cases:
        it = C.new_interp(concrete=True)
        st = State()
        args = {"y": y, "lmda": lam, "nodata": nd, "p": p if p is not None else 0.5}
        mine = S.call_kernel(it, st, kname, args)["out"]
        ra = [{"nd": y, "dtype": "float64"}, lam, nd] + ([p if p is not None else 0.5] if kname == "ws2dpgu" else [])
        real = chk.replayer.call("call", fn=f"hdc.algo.ops:{kname}", args=ra)["value"]
        chk.validate(kname, mine, real)


def replay_candidate(chk, c):
    r = chk.replayer.call("c03_fixed", **{k: v for k, v in c["input"].items()})
    return bool(r["violates"]), r


def main(tier, seed, nproc=None):
    chk = C.Check(PID, tier, seed)
    chk.assumptions = ["valid cells are integers with |x| <= 10000 and differ from the placeholder; floats are exact reals",
                       "results outside int16 are outside the claim (in-range stores are assumptions of the queries)",
                       "regime 3: products/quotients of unknowns are uninterpreted (sound for 'holds'); candidates are replayed",
                       "reference models (refs/smooth_ref.py) share only ws2d with the implementation (C01)"]
    chk.bounds = {"n": f"4..{6 if tier == 'quick' else 8}", "gap patterns": "all (n <= 6), all-but-<=2 and <=2 valid above",
                  "lambda": "symbolic > 0 and == 0 (kernel = reference); grid " + str([str(x) for x in LAMBDAS]) + " (exact tie)",
                  "p": "symbolic in (0,1)", "whits": "s / sg / sg = -inf, with and without p, one pixel"}
    chk.outside = ["multi-pixel alignment of sgrids (dims in any order) beyond the 'labels dropped' obligation", "series of length ~400",
                   "composition of the 10 passes in exact arithmetic (per-pass only)"]
    validate(chk, seed)
    chk.run(worker, configs(tier), nproc)
    chk.confirm(lambda c: replay_candidate(chk, c))
    return chk.finish(
        rule="per kernel and gap pattern: kernel = reference (all data / lambda / p symbolic), outputs written; per lambda of the grid: "
             "rounded solution of the normal equations; accessor dispatch; non-trivial = >= 1 free variable; distinct by goal hash",
        explanation="ws2dgu / ws2dpgu / whits executed symbolically next to reference models run by the same evaluator; z3 decides "
                    "cell-wise equality (UF + LRA); exact tie of ws2dgu to the normal equations in QF_LIRA")


def replay(path):
    chk = C.Check(PID, "quick", 0)
    c = json.load(open(path))
    ok, detail = replay_candidate(chk, c)
    chk.replayer.close()
    print(json.dumps(detail, default=str)[:2000])
    if ok:
        print(f"VIOLATION property={PID} replay={path}")
        return 1
    return 0
