"""C04 - V-curve selection is optimal on the grid and self-consistent (DESIGN 5, C04)."""
import json

import z3

from . import common as C
from . import smooth as S
from . import xr_stubs as X
from pysym import vals as V
from pysym.interp import State, Instance
from pysym.lib import native
from pysym.vals import Unsupported

PID = "C04"


def vcurve_claims(it, st, kname, px, nd, p, llas, res, tag, accept_cold=True):
    """(a) lopt is the midpoint of a V-minimising interval; (b) the band is the fixed smoother at lopt."""
    cells = px.cells(nd) if kname != "ws2doptvplc" else [z3.ToReal(x) if v else z3.ToReal(nd) for x, v in zip(px.xs, px.valid)]
    asym = kname != "ws2doptv"
    wref = S.call_ref(it, st, "valid_weights", cells, z3.ToReal(nd), False)
    la = it.new_array(st, (len(llas),), "float64", cells=list(llas))
    ya = it.new_array(st, (len(cells),), "float64", cells=list(cells))
    mids = S.ref_values(it, st, it.call_function(st, it.get_function("refs.smooth_ref", "midpoints"), [la]))
    options = []
    for warm in ((True, False) if (asym and accept_cold) else (True,)):
        fn = it.get_function("refs.smooth_ref", "vcurve_points")
        fits, pens = it.call_function(st, fn, [ya, wref, la, p if asym else None, warm])
        v = S.ref_values(it, st, it.call_function(st, it.get_function("refs.smooth_ref", "vcurve_values"), [fits, pens, la]))
        for k in range(len(mids)):
            is_k = S.eq(res["lopt"], it.A.pow10(mids[k]))
            minimal = z3.And(*[V.to_z3(it.A.cmp("<=", v[k], v[j])) for j in range(len(v)) if j != k]) if len(v) > 1 else z3.BoolVal(True)
            options.append(z3.And(is_k, minimal))
    claims = [(f"{tag}.lambda_is_grid_midpoint_minimising_V", z3.Or(*options), {})]
    if asym:
        r = S.call_ref(it, st, "fixed_p", cells, res["lopt"], z3.ToReal(nd), p)
    else:
        r = S.call_ref(it, st, "fixed", cells, res["lopt"], z3.ToReal(nd))
    rv = S.ref_values(it, st, r)
    for i in range(len(cells)):
        claims.append((f"{tag}.band_is_fixed_smoother_at_lambda[{i}]", S.eq(res["out"][i], rv[i]), {}))
    claims.append((f"{tag}.lambda_written", res["lopt_written"], {}))
    return claims


def w_kernel(w, cfg):
    kname, valid, grid = cfg["kernel"], cfg["valid"], cfg["grid"]
    n = len(valid)
    tag = f"{kname}[grid={grid}]"

    def build(abstract):
        it = S.new_interp()
        if abstract:
            S.abstract_ws2d(it)
        px = S.Pixel(n, valid)
        nd, p = z3.Int("nd"), z3.Real("p")
        llas, gf, (l0, step) = S.grid_terms(grid)
        facts = px.facts(nd) + gf + [p > 0, p < 1]
        it.assume(*facts)
        st = State()
        args = {"y": px.cells(nd), "nodata": z3.ToReal(nd), "p": p, "llas": llas}
        res = S.call_kernel(it, st, kname, args)
        claims = vcurve_claims(it, st, kname, px, nd, p, llas, res, tag)

        def conc(m):
            return {"kernel": kname, "data": [C.model_value(m, x) if v else None for x, v in zip(px.xs, px.valid)],
                    "nodata": C.model_value(m, nd), "p": C.model_value(m, p), "l0": C.model_value(m, l0), "lstep": C.model_value(m, step),
                    "grid": grid}
        return {"assume": facts + it.cast_assumptions, "lemmas": list(it.A.lemmas), "claims": claims, "conc": conc,
                "encoded": dict(it.encoded), "facts": facts}
    S.two_stage(w, build, inline=cfg.get("inline", True))
    w.vacuity(f"{tag}.assumptions", S.Pixel(n, valid).facts(z3.Int("nd")))


def doc_grid(lc):
    import numpy as np
    import math
    if isinstance(lc, float) and not math.isnan(lc) and lc > 0.5:
        return np.arange(-2, 1.2, 0.2, dtype="float64")
    return np.arange(0, 3.2, 0.2, dtype="float64")


def w_lc(w, cfg):
    """(d) grid chosen from the lag-1 correlation: -2..1.0 where lc > 0.5, 0..3.0 elsewhere (incl. NaN)."""
    valid, lc = cfg["valid"], cfg["lc"]
    n = len(valid)
    lcv = {"nan": V.NAN}.get(lc, lc)
    tag = f"ws2doptvplc[lc={lc}]"
    kp = {"C04-lc-nan": z3.BoolVal(lc == "nan")}

    def build(abstract):
        it = S.new_interp()
        if abstract:
            S.abstract_ws2d(it)
        px = S.Pixel(n, valid)
        nd, p = z3.Int("nd"), z3.Real("p")
        facts = px.facts(nd) + [p > 0, p < 1]
        it.assume(*facts)
        st = State()
        cells = [x if v else nd for x, v in zip(px.xs, px.valid)]
        res = S.call_kernel(it, st, "ws2doptvplc", {"y": cells, "nodata": z3.ToReal(nd), "p": p,
                                                    "lc": lcv if lc == "nan" else V.fr(float(lc))})
        grid = [V.fr(float(x)) for x in doc_grid(float("nan") if lc == "nan" else float(lc))]
        claims = vcurve_claims(it, st, "ws2doptvplc", px, nd, p, grid, res, tag)
        claims = [(nm, cl, dict(kw, known_preds=kp)) for nm, cl, kw in claims]

        def conc(m):
            return {"kernel": "ws2doptvplc", "data": [C.model_value(m, x) if v else None for x, v in zip(px.xs, px.valid)],
                    "nodata": C.model_value(m, nd), "p": C.model_value(m, p), "lc": lc}
        return {"assume": facts + it.cast_assumptions, "lemmas": list(it.A.lemmas), "claims": claims, "conc": conc,
                "encoded": dict(it.encoded), "facts": facts}
    S.two_stage(w, build, inline=False)


class DatasetStub:
    def __init__(self, name, da):
        self.vars = {name: da}

    def pysym_setitem(self, it, st, key, v):
        self.vars[key] = v


def w_accessor(w, cfg):
    """(c) whitsvc: dispatch on lc / p, dataset naming, sgrid = float32(log10(lambda))."""
    valid, mode = cfg["valid"], cfg["mode"]
    n = len(valid)
    it = S.new_interp()
    S.abstract_ws2d(it)
    px = S.Pixel(n, valid)
    nd, p = z3.Int("nd"), z3.Real("p")
    llas, gf, (l0, step) = S.grid_terms(3)
    facts = px.facts(nd) + gf + [p > 0, p < 1]
    it.assume(*facts)
    st = State()
    cells = [x if v else nd for x, v in zip(px.xs, px.valid)]
    rec = []
    da = X.StubDA(cells, ("time",), list(range(n)), dtype="int16", attrs={"nodata": nd}, name=cfg.get("name"))

    def to_dataset(it_, st_, name=None):
        return DatasetStub(name, da_out[0])
    cls = it.get_function("hdc.algo.accessors", "WhittakerSmoother")
    cls.link_bases(it)
    inst = Instance(cls)
    inst.fields["_obj"] = da
    base_apply = X.make_apply_ufunc(C.make_out, rec)
    da_out = [None]

    @native
    def apply_ufunc(it_, st_, func, *args, **kw):
        r = base_apply(it_, st_, func, *args, **kw)
        if isinstance(r, tuple):
            da_out[0] = r[0]
            r[0].m_to_dataset = lambda it2, st2, name=None: DatasetStub(name, r[0])
        return r
    it.lib_overrides["xarray.apply_ufunc"] = apply_ufunc

    @native
    def log10(it_, st_, a):
        if isinstance(a, X.StubDA):
            f = it_.A.uf("log10f")
            return a.like([f(V.to_real(v.value if isinstance(v, V.Partial) else v)) for v in a.vals], dtype="float64")
        return it_.lib.LIB["numpy.log10"](it_, st_, a)
    it.lib_overrides["numpy.log10"] = log10
    kwargs = {"nodata": nd}
    if mode in ("p", "nop"):
        kwargs["srange"] = it.new_array(st, (3,), "float64", cells=list(llas))
    if mode in ("p", "lc"):
        kwargs["p"] = p
    if mode == "lc":
        kwargs["lc"] = X.StubDA([V.fr(0.7)], (), [None], dtype="float64")
    ds = it.call_function(st, cls.methods["whitsvc"], [inst], kwargs)
    w.res.encoded.update(it.encoded)
    if not isinstance(ds, DatasetStub):
        raise Unsupported("whitsvc did not return a dataset")
    want = cfg.get("name") or "band"
    conc = lambda m: {"kernel": "whitsvc", "data": [C.model_value(m, x) if v else None for x, v in zip(px.xs, px.valid)],  # noqa: E731
                      "nodata": C.model_value(m, nd), "p": C.model_value(m, p) if mode != "nop" else None, "mode": mode,
                      "l0": C.model_value(m, l0), "lstep": C.model_value(m, step), "name": cfg.get("name")}
    w.discharge(f"whitsvc[{mode}].dataset_names", [], z3.BoolVal(set(ds.vars) == {want, "sgrid"}), concretize=conc)
    if set(ds.vars) != {want, "sgrid"}:
        return
    # the same kernel run directly: the accessor must hand back exactly its band and float32(log10(lambda))
    kname = {"p": "ws2doptvp", "nop": "ws2doptv", "lc": "ws2doptvplc"}[mode]
    kcells = px.cells(nd) if kname != "ws2doptvplc" else cells
    res = S.call_kernel(it, State(), kname, {"y": kcells, "nodata": z3.ToReal(nd), "p": p, "llas": llas, "lc": V.fr(0.7)})
    band = [c.value if isinstance(c, V.Partial) else c for c in ds.vars[want].vals]
    assume = facts + it.cast_assumptions
    w.discharge(f"whitsvc[{mode}].band_from_the_right_kernel", assume, S.all_eq(band, res["out"]), lemmas=it.A.lemmas, concretize=conc)
    sg = ds.vars["sgrid"]
    f = it.A.uf("log10f")
    w.discharge(f"whitsvc[{mode}].sgrid_is_log10_lambda", assume, S.eq(sg.vals[0], f(V.to_real(res["lopt"]))), lemmas=it.A.lemmas,
                concretize=conc)
    w.discharge(f"whitsvc[{mode}].sgrid_float32", [], z3.BoolVal(sg.dtype == "float32"), concretize=conc)


def worker(w, cfg):
    {"kernel": w_kernel, "lc": w_lc, "accessor": w_accessor}[cfg["kind"]](w, cfg)


def configs(tier):
    cf = []
    for kname in ("ws2doptv", "ws2doptvp"):
        for n in ((5,) if tier == "quick" else (5, 6)):
            for valid in S.gap_patterns(n, 2):
                if tier == "quick" and sum(valid) < n - 1 and kname == "ws2doptvp":
                    continue
                for grid in ((3, 4) if tier == "quick" else (3, 4, 5)):
                    if kname == "ws2doptvp" and grid > (3 if tier == "quick" else 4):
                        continue
                    cf.append({"kind": "kernel", "kernel": kname, "valid": valid, "grid": grid, "inline": kname == "ws2doptv" and grid <= 3})
    for lc in (0.7, 0.3, 0.5, "nan"):
        for valid in ([True, True, True, True], [True, False, True, True]):
            cf.append({"kind": "lc", "valid": valid, "lc": lc})
    for mode in ("p", "nop", "lc"):
        for name in (None, "ndvi"):
            cf.append({"kind": "accessor", "valid": [True, True, False, True, True], "mode": mode, "name": name})
    return cf


def validate(chk, seed):
    pass   # the kernels of this property are validated in C02's translator validation (same evaluator, same sources)


def replay_candidate(chk, c):
    r = chk.replayer.call("c04_vcurve", **c["input"])
    return bool(r["violates"]), r


def main(tier, seed, nproc=None):
    chk = C.Check(PID, tier, seed)
    chk.assumptions = ["valid cells are integers with |x| <= 10000; floats are exact reals; results outside int16 outside the claim",
                       "log / sqrt / pow10 / products uninterpreted and shared with the reference V-curve; ws2d abstracted in the first stage",
                       "for the asymmetric kernels a lambda minimising the V-curve of either the warm-started or the cold-started iterates is accepted",
                       "ties of V are free (first-strict-minimum rule not demanded)"]
    chk.bounds = {"n": "5 quick / 5..6 thorough", "srange": "symbolic start and step > 0, 3..4 (5) entries", "p": "symbolic in (0,1)",
                  "lc": "0.7, 0.5, 0.3, NaN with the two documented 16-point grids, n = 4"}
    chk.outside = ["sranges with 6..40 entries", "series of length ~200", "float ties of V"]
    from . import C02
    C02.validate(chk, seed)
    chk.run(worker, configs(tier), nproc)
    chk.confirm(lambda c: replay_candidate(chk, c))
    return chk.finish(
        rule="per kernel, gap pattern and grid length: lambda = 10**midpoint of a V-minimising interval, band = fixed smoother at that lambda "
             "cell-wise; accessor dispatch / naming / sgrid; non-trivial = >= 1 free variable; distinct by goal hash",
        explanation="V-curve kernels executed symbolically next to a reference V-curve built from the statement; order reasoning over "
                    "opaque V values decides the arg-min logic, congruence decides band = fixed smoother")


def replay(path):
    chk = C.Check(PID, "quick", 0)
    c = json.load(open(path))
    ok, detail = replay_candidate(chk, c)
    chk.replayer.close()
    print(json.dumps(detail, default=str)[:2000])
    if ok:
        print(f"VIOLATION property={PID} replay={path}")
        return 1
    return 0
