"""C04 - V-curve selection is optimal on the grid and self-consistent (DESIGN 5, C04)."""
import json

import z3

from . import common as C
from . import smooth as S
from . import xr_stubs as X
from pysym import vals as V
from pysym.interp import State, Instance
from pysym.lib import native
from pysym.vals import Unsupported

PID = "C04"


def vcurve_claims(it, st, kname, px, nd, p, llas, res, tag, accept_cold=True):
    """(a) lopt is the midpoint of a V-minimising interval; (b) the band is the fixed smoother at lopt."""
    cells = px.cells(nd) if kname != "ws2doptvplc" else [z3.ToReal(x) if v else z3.ToReal(nd) for x, v in zip(px.xs, px.valid)]
    asym = kname != "ws2doptv"
    wref = S.call_ref(it, st, "valid_weights", cells, z3.ToReal(nd), False)
    la = it.new_array(st, (len(llas),), "float64", cells=list(llas))
    ya = it.new_array(st, (len(cells),), "float64", cells=list(cells))
    mids = S.ref_values(it, st, it.call_function(st, it.get_function("refs.smooth_ref", "midpoints"), [la]))
    options = []
    for warm in ((True, False) if (asym and accept_cold) else (True,)):
        fn = it.get_function("refs.smooth_ref", "vcurve_points")
        fits, pens = it.call_function(st, fn, [ya, wref, la, p if asym else None, warm])
        v = S.ref_values(it, st, it.call_function(st, it.get_function("refs.smooth_ref", "vcurve_values"), [fits, pens, la]))
        for k in range(len(mids)):
            is_k = S.eq(res["lopt"], it.A.pow10(mids[k]))
            minimal = z3.And(*[V.to_z3(it.A.cmp("<=", v[k], v[j])) for j in range(len(v)) if j != k]) if len(v) > 1 else z3.BoolVal(True)
            options.append(z3.And(is_k, minimal))
    claims = [(f"{tag}.lambda_is_grid_midpoint_minimising_V", z3.Or(*options), {})]
    if asym:
        r = S.call_ref(it, st, "fixed_p", cells, res["lopt"], z3.ToReal(nd), p)
    else:
        r = S.call_ref(it, st, "fixed", cells, res["lopt"], z3.ToReal(nd))
    rv = S.ref_values(it, st, r)
    for i in range(len(cells)):
        claims.append((f"{tag}.band_is_fixed_smoother_at_lambda[{i}]", S.eq(res["out"][i], rv[i]), {}))
    claims.append((f"{tag}.lambda_written", res["lopt_written"], {}))
    return claims


def w_kernel(w, cfg):
    kname, valid, grid = cfg["kernel"], cfg["valid"], cfg["grid"]
    n = len(valid)
    tag = f"{kname}[grid={grid}]"

    def build(abstract):
        it = S.new_interp()
        if abstract:
            S.abstract_ws2d(it)
        px = S.Pixel(n, valid)
        nd, p = z3.Int("nd"), z3.Real("p")
        llas, gf, (l0, step) = S.grid_terms(grid)
        facts = px.facts(nd) + gf + [p > 0, p < 1]
        it.assume(*facts)
        st = State()
        args = {"y": px.cells(nd), "nodata": z3.ToReal(nd), "p": p, "llas": llas}
        res = S.call_kernel(it, st, kname, args)
        claims = vcurve_claims(it, st, kname, px, nd, p, llas, res, tag)

        def conc(m):
            return {"kernel": kname, "data": [C.model_value(m, x) if v else None for x, v in zip(px.xs, px.valid)],
                    "nodata": C.model_value(m, nd), "p": C.model_value(m, p), "l0": C.model_value(m, l0), "lstep": C.model_value(m, step),
                    "grid": grid}
        return {"assume": facts + it.cast_assumptions, "lemmas": list(it.A.lemmas), "claims": claims, "conc": conc,
                "encoded": dict(it.encoded), "facts": facts}
    S.two_stage(w, build, inline=cfg.get("inline", True))
    w.vacuity(f"{tag}.assumptions", S.Pixel(n, valid).facts(z3.Int("nd")))


def doc_grid(lc):
    import numpy as np
    import math
    if isinstance(lc, float) and not math.isnan(lc) and lc > 0.5:
        return np.arange(-2, 1.2, 0.2, dtype="float64")
    return np.arange(0, 3.2, 0.2, dtype="float64")


LC_SERIES = {
    "a": [120, 340, 560, 410, 230, 90, 310, 620, 480, 150],
    "b": [1000, -3000, 1400, 900, 1800, 700, 1500, 1100],
    "c": [5, 9, 2, 8, 1, 9, 3, 7, 2, 8, 1, 9],
}


def w_lc(w, cfg):
    """(d) grid chosen from the lag-1 correlation: -2..1.0 where lc > 0.5, 0..3.0 elsewhere (incl. NaN).

    The choice depends on lc alone, so lc is the unknown (every real, or NaN) and the series / p are configuration; values are
    kept as ite-trees over `lc > 0.5` with constant leaves (regime 2), hence the whole V-curve sweep stays exact. Differential
    claim: same lambda and band as ws2doptvp on the documented grid; and lambda is a midpoint of that grid."""
    data, lcmode, pv = LC_SERIES[cfg["series"]], cfg["lc"], cfg["p"]
    nodata = -3000
    n = len(data)
    it = S.new_interp(policy="exact", prune="pc")
    it.A.tree_mode = True
    lc = z3.Real("lc")
    st = State()
    lcv = V.NAN if lcmode == "nan" else lc
    res = S.call_kernel(it, st, "ws2doptvplc", {"y": list(data), "nodata": nodata, "p": V.fr(pv), "lc": lcv})
    w.res.encoded.update(it.encoded)
    import numpy as np
    g_hi = [V.fr(float(x)) for x in np.arange(-2, 1.2, 0.2, dtype="float64")]
    g_lo = [V.fr(float(x)) for x in np.arange(0, 3.2, 0.2, dtype="float64")]
    if lcmode == "nan":
        grid = g_lo
        cond = None
    else:
        cond = lc > V.to_z3(V.fr(0.5))
        grid = [it.A.ite(cond, a, b) for a, b in zip(g_hi, g_lo)]
    ref = S.call_kernel(it, State(), "ws2doptvp", {"y": [V.fr(float(v)) for v in data], "nodata": nodata, "p": V.fr(pv), "llas": grid})

    def conc(m):
        return {"kernel": "ws2doptvplc", "data": [None if v == nodata else v for v in data], "nodata": nodata, "p": pv,
                "lc": "nan" if lcmode == "nan" else C.model_value(m, lc), "series": cfg["series"]}
    tag = f"ws2doptvplc[lc={'NaN' if lcmode == 'nan' else 'all reals'},{cfg['series']},p={pv}]"
    mids_hi = [it.A.pow10((g_hi[k] + g_hi[k + 1]) / 2) for k in range(len(g_hi) - 1)]
    mids_lo = [it.A.pow10((g_lo[k] + g_lo[k + 1]) / 2) for k in range(len(g_lo) - 1)]
    in_hi = z3.Or(*[S.eq(res["lopt"], mk) for mk in mids_hi])
    in_lo = z3.Or(*[S.eq(res["lopt"], mk) for mk in mids_lo])
    claim = in_lo if cond is None else z3.If(cond, in_hi, in_lo)
    w.discharge(f"{tag}.lambda_is_midpoint_of_documented_grid", [], claim, concretize=conc, sample=True)
    w.discharge(f"{tag}.lambda_as_ws2doptvp_on_documented_grid", [], S.eq(res["lopt"], ref["lopt"]), concretize=conc)
    w.discharge(f"{tag}.band_as_ws2doptvp_on_documented_grid", [], S.all_eq(res["out"], ref["out"]), concretize=conc)


DatasetStub = X.DatasetStub


def w_accessor(w, cfg):
    """(c) whitsvc: dispatch on lc / p, dataset naming, sgrid = float32(log10(lambda))."""
    valid, mode = cfg["valid"], cfg["mode"]
    n = len(valid)
    it = S.new_interp()
    S.abstract_ws2d(it)
    px = S.Pixel(n, valid)
    nd, p = z3.Int("nd"), z3.Real("p")
    llas, gf, (l0, step) = S.grid_terms(3)
    facts = px.facts(nd) + gf + [p > 0, p < 1]
    it.assume(*facts)
    st = State()
    cells = [x if v else nd for x, v in zip(px.xs, px.valid)]
    rec = []
    da = X.StubDA(cells, ("time",), list(range(n)), dtype="int16", attrs={"nodata": nd}, name=cfg.get("name"))

    cls = it.get_function("hdc.algo.accessors", "WhittakerSmoother")
    cls.link_bases(it)
    inst = Instance(cls)
    inst.fields["_obj"] = da
    it.lib_overrides["xarray.apply_ufunc"] = X.make_apply_ufunc(C.make_out, rec)

    @native
    def log10(it_, st_, a):
        if isinstance(a, X.StubDA):
            f = it_.A.uf("log10f")
            return a.like([f(V.to_real(v.value if isinstance(v, V.Partial) else v)) for v in a.vals], dtype="float64")
        return it_.lib.LIB["numpy.log10"](it_, st_, a)
    it.lib_overrides["numpy.log10"] = log10

    @native
    def asarray(it_, st_, obj, dtype=None, **kw):
        if isinstance(obj, X.StubDA):
            # a labelled per-pixel raster (lc) turned into a bare ndarray: apply_ufunc can then only align it by position
            it_.oblige(st_, "labels-dropped", False, "per-pixel DataArray converted to an unlabelled ndarray before apply_ufunc")
            return obj
        return it_.lib.np_array(it_, st_, obj, dtype)
    it.lib_overrides["numpy.asarray"] = asarray
    it.lib_overrides["numpy.array"] = asarray
    kwargs = {"nodata": nd}
    if mode in ("p", "nop"):
        kwargs["srange"] = it.new_array(st, (3,), "float64", cells=list(llas))
    if mode in ("p", "lc"):
        kwargs["p"] = p
    if mode == "lc":
        kwargs["lc"] = X.StubDA([V.fr(0.7)], (), [None], dtype="float64")
    ds = it.call_function(st, cls.methods["whitsvc"], [inst], kwargs)
    w.res.encoded.update(it.encoded)
    if not isinstance(ds, DatasetStub):
        raise Unsupported("whitsvc did not return a dataset")
    want = cfg.get("name") or "band"
    conc = lambda m: {"kernel": "whitsvc", "data": [C.model_value(m, x) if v else None for x, v in zip(px.xs, px.valid)],  # noqa: E731
                      "nodata": C.model_value(m, nd), "p": C.model_value(m, p) if mode != "nop" else None, "mode": mode,
                      "l0": C.model_value(m, l0), "lstep": C.model_value(m, step), "name": cfg.get("name")}
    for ob in it.obligations:
        if ob.kind == "labels-dropped":
            w.discharge(f"whitsvc[{mode}].{ob.kind}", facts, ob.claim, guard=ob.guard, concretize=conc)
    w.discharge(f"whitsvc[{mode}].dataset_names", [], z3.BoolVal(set(ds.vars) == {want, "sgrid"}), concretize=conc)
    if set(ds.vars) != {want, "sgrid"}:
        return
    # the same kernel run directly: the accessor must hand back exactly its band and float32(log10(lambda))
    kname = {"p": "ws2doptvp", "nop": "ws2doptv", "lc": "ws2doptvplc"}[mode]
    kcells = px.cells(nd) if kname != "ws2doptvplc" else cells
    res = S.call_kernel(it, State(), kname, {"y": kcells, "nodata": z3.ToReal(nd), "p": p, "llas": llas, "lc": V.fr(0.7)})
    band = [c.value if isinstance(c, V.Partial) else c for c in ds.vars[want].vals]
    assume = facts + it.cast_assumptions
    w.discharge(f"whitsvc[{mode}].band_from_the_right_kernel", assume, S.all_eq(band, res["out"]), lemmas=it.A.lemmas, concretize=conc)
    sg = ds.vars["sgrid"]
    f = it.A.uf("log10f")
    w.discharge(f"whitsvc[{mode}].sgrid_is_log10_lambda", assume, S.eq(sg.vals[0], f(V.to_real(res["lopt"]))), lemmas=it.A.lemmas,
                concretize=conc)
    w.discharge(f"whitsvc[{mode}].sgrid_float32", [], z3.BoolVal(sg.dtype == "float32"), concretize=conc)


def worker(w, cfg):
    {"kernel": w_kernel, "lc": w_lc, "accessor": w_accessor}[cfg["kind"]](w, cfg)


def configs(tier):
    cf = []
    for kname in ("ws2doptv", "ws2doptvp"):
        for n in ((5,) if tier == "quick" else (5, 6)):
            for valid in S.gap_patterns(n, 2):
                if tier == "quick" and sum(valid) < n - 1 and kname == "ws2doptvp":
                    continue
                for grid in ((3, 4) if tier == "quick" else (3, 4, 5)):
                    if kname == "ws2doptvp" and grid > (3 if tier == "quick" else 4):
                        continue
                    cf.append({"kind": "kernel", "kernel": kname, "valid": valid, "grid": grid, "inline": kname == "ws2doptv" and grid <= 3})
    # the minimum valid count (exactly two / three valid cells) on a short series, both kernels
    for kname in ("ws2doptv", "ws2doptvp"):
        for valid in S.gap_patterns(4, 2):
            if sum(valid) <= 3:
                cf.append({"kind": "kernel", "kernel": kname, "valid": valid, "grid": 3, "inline": kname == "ws2doptv"})
    for series in LC_SERIES:
        for lc in ("real", "nan"):
            for pv in ((0.9,) if tier == "quick" else (0.9, 0.5, 0.1)):
                cf.append({"kind": "lc", "series": series, "lc": lc, "p": pv})
    for mode in ("p", "nop", "lc"):
        for name in (None, "ndvi"):
            cf.append({"kind": "accessor", "valid": [True, True, False, True, True], "mode": mode, "name": name})
    return cf


def validate(chk, seed):
    pass   # the kernels of this property are validated in C02's translator validation (same evaluator, same sources)


def replay_candidate(chk, c):
    r = chk.replayer.call("c04_vcurve", **c["input"])
    return bool(r["violates"]), r


def main(tier, seed, nproc=None):
    chk = C.Check(PID, tier, seed)
    chk.assumptions = ["valid cells are integers with |x| <= 10000; floats are exact reals; results outside int16 outside the claim",
                       "log / sqrt / pow10 / products uninterpreted and shared with the reference V-curve; ws2d abstracted in the first stage",
                       "for the asymmetric kernels a lambda minimising the V-curve of either the warm-started or the cold-started iterates is accepted",
                       "ties of V are free (first-strict-minimum rule not demanded)"]
    chk.bounds = {"n": "5 quick / 5..6 thorough", "srange": "symbolic start and step > 0, 3..4 (5) entries", "p": "symbolic in (0,1)",
                  "lc": "0.7, 0.5, 0.3, NaN with the two documented 16-point grids, n = 4"}
    chk.outside = ["sranges with 6..40 entries", "series of length ~200", "float ties of V"]
    from . import C02
    C02.validate(chk, seed)
    chk.run(worker, configs(tier), nproc)
    chk.confirm(lambda c: replay_candidate(chk, c))
    return chk.finish(
        rule="per kernel, gap pattern and grid length: lambda = 10**midpoint of a V-minimising interval, band = fixed smoother at that lambda "
             "cell-wise; accessor dispatch / naming / sgrid; non-trivial = >= 1 free variable; distinct by goal hash",
        explanation="V-curve kernels executed symbolically next to a reference V-curve built from the statement; order reasoning over "
                    "opaque V values decides the arg-min logic, congruence decides band = fixed smoother")


def replay(path):
    chk = C.Check(PID, "quick", 0)
    c = json.load(open(path))
    ok, detail = replay_candidate(chk, c)
    chk.replayer.close()
    print(json.dumps(detail, default=str)[:2000])
    if ok:
        print(f"VIOLATION property={PID} replay={path}")
        return 1
    return 0
