"""C05 - GCV selection is optimal on the grid; robust mode never degenerates (DESIGN 5, C05)."""
import json

import z3

from . import common as C
from . import smooth as S
from . import xr_stubs as X
from pysym import vals as V
from pysym.interp import State, Instance
from pysym.lib import native
from pysym.vals import Unsupported

PID = "C05"


def w_kernel(w, cfg):
    """non-robust: lambda from 10**srange minimising the GCV score of the statement; band = fixed smoother at lambda."""
    kname, valid, grid = cfg["kernel"], cfg["valid"], cfg["grid"]
    n = len(valid)
    tag = f"{kname}[grid={grid}]"

    def build(abstract):
        it = S.new_interp()
        if abstract:
            S.abstract_ws2d(it)
        px = S.Pixel(n, valid)
        nd, p = z3.Int("nd"), z3.Real("p")
        llas, gf, (l0, step) = S.grid_terms(grid)
        facts = px.facts(nd) + gf + [p > 0, p < 1]
        it.assume(*facts)
        st = State()
        cells = px.cells(nd)
        res = S.call_kernel(it, st, kname, {"y": cells, "nodata": z3.ToReal(nd), "p": p, "llas": llas, "robust": False})
        wref = S.call_ref(it, st, "valid_weights", cells, z3.ToReal(nd), True)
        la = it.new_array(st, (grid,), "float64", cells=list(llas))
        ya = it.new_array(st, (n,), "float64", cells=list(cells))
        sc = S.ref_values(it, st, it.call_function(st, it.get_function("refs.smooth_ref", "gcv_scores"), [ya, wref, la]))
        big = V.fr(1e15)
        sane = [V.to_z3(it.A.cmp("<", s, big)) for s in sc]
        options = []
        for k in range(grid):
            is_k = S.eq(res["lopt"], it.A.pow10(llas[k]))
            minimal = z3.And(*[V.to_z3(it.A.cmp("<=", sc[k], sc[j])) for j in range(grid) if j != k]) if grid > 1 else z3.BoolVal(True)
            options.append(z3.And(is_k, minimal))
        claims = [(f"{tag}.lambda_from_grid_minimising_gcv", z3.Or(*options), {}), (f"{tag}.lambda_written", res["lopt_written"], {})]
        if kname == "ws2dwcv":
            r = S.call_ref(it, st, "fixed", cells, res["lopt"], z3.ToReal(nd))
        else:
            r = S.call_ref(it, st, "fixed_p", cells, res["lopt"], z3.ToReal(nd), p)
        rv = S.ref_values(it, st, r)
        for i in range(n):
            claims.append((f"{tag}.band_is_fixed_smoother_at_lambda[{i}]", S.eq(res["out"][i], rv[i]), {}))

        def conc(m):
            return {"kernel": kname, "data": [C.model_value(m, x) if v else None for x, v in zip(px.xs, px.valid)],
                    "nodata": C.model_value(m, nd), "p": C.model_value(m, p), "l0": C.model_value(m, l0), "lstep": C.model_value(m, step),
                    "grid": grid, "robust": False}
        return {"assume": facts + it.cast_assumptions + sane, "lemmas": list(it.A.lemmas), "claims": claims, "conc": conc,
                "encoded": dict(it.encoded), "facts": facts}
    S.two_stage(w, build, inline=cfg.get("inline", False))
    w.vacuity(f"{tag}.assumptions", S.Pixel(n, valid).facts(z3.Int("nd")))


def w_robust(w, cfg):
    """robust: no non-finite value may arise (division by a zero MAD, sqrt of a negative leverage term)."""
    kname, valid = cfg["kernel"], cfg["valid"]
    n = len(valid)
    it = S.new_interp()
    S.abstract_ws2d(it)
    px = S.Pixel(n, valid)
    nd, p = z3.Int("nd"), z3.Real("p")
    llas, gf, (l0, step) = S.grid_terms(2)
    facts = px.facts(nd) + gf + [p > 0, p < 1]
    it.assume(*facts)
    st = State()
    S.call_kernel(it, st, kname, {"y": px.cells(nd), "nodata": z3.ToReal(nd), "p": p, "llas": llas, "robust": True})
    w.res.encoded.update(it.encoded)

    def conc(m):
        return {"kernel": kname, "data": [C.model_value(m, x) if v else None for x, v in zip(px.xs, px.valid)],
                "nodata": C.model_value(m, nd), "p": C.model_value(m, p), "robust": True, "shape": "degenerate"}
    kp = {"C05-robust-mad-zero": z3.BoolVal(True)}
    seen = set()
    for ob in it.obligations:
        if ob.kind not in ("zero-division", "sqrt-domain", "empty-median"):
            continue
        key = (ob.kind, ob.where)
        if key in seen:
            continue
        seen.add(key)
        # the denominators 1.4826 * MAD * sqrt(1 - trH/n): zero MAD when more than half of the residuals coincide
        v, m, dt = C.check_sat(facts + [ob.guard, V.z_not(ob.claim)], 10000)
        w.res.queries.append({"name": f"{kname}[robust].{ob.kind}@{ob.where}", "verdict": v, "time": round(dt, 3),
                              "hash": C.term_hash(V.to_z3(V.z_not(ob.claim))), "nvars": 1, "config": w.config,
                              "known_probe": "C05-robust-mad-zero" in w.known})
        if v == "sat":
            w.res.candidates.append({"obligation": f"{kname}[robust].{ob.kind}@{ob.where}", "config": w.config,
                                     "known": "C05-robust-mad-zero" if "C05-robust-mad-zero" in w.known else None,
                                     "input": C.jsonable(conc(m))})


def w_accessor(w, cfg):
    """whitswcv: default srange arange(-1.8, 4.2, 0.2), robust=True by default, p dispatch, naming, float32 sgrid."""
    mode = cfg["mode"]
    it = S.new_interp()
    st = State()
    calls = []
    nd = z3.Int("nd")
    cells = [z3.Int(f"x{i}") for i in range(6)]
    da = X.StubDA(cells, ("time",), list(range(6)), dtype="int16", attrs={"nodata": nd}, name=None)
    cls = it.get_function("hdc.algo.accessors", "WhittakerSmoother")
    cls.link_bases(it)
    inst = Instance(cls)
    inst.fields["_obj"] = da

    @native
    def apply_ufunc(it_, st_, func, *args, **kw):
        calls.append({"func": func.name, "args": args, "kw": kw, "guard": V.z_and(*st_.pc)})
        band = X.StubDA([z3.Int(f"b{i}") for i in range(6)], ("time",), list(range(6)), dtype="int16", name=da.name)
        sg = X.StubDA([z3.Real("lopt")], (), [None], dtype="float64")
        return (band, sg)
    it.lib_overrides["xarray.apply_ufunc"] = apply_ufunc

    @native
    def log10(it_, st_, a):
        f = it_.A.uf("log10f")
        return a.like([f(V.to_real(v)) for v in a.vals], dtype="float64")
    it.lib_overrides["numpy.log10"] = log10
    kwargs = {"nodata": nd}
    if mode == "p":
        kwargs["p"] = z3.Real("p")
        it.assume(z3.Real("p") > 0)
    if cfg.get("robust") is not None:
        kwargs["robust"] = cfg["robust"]
    ds = it.call_function(st, cls.methods["whitswcv"], [inst], kwargs)
    w.res.encoded.update(it.encoded)
    import numpy as np
    pfacts = [z3.Real("p") > 0, z3.Real("p") < 1] if mode == "p" else []
    detail = {}

    def conc(m):
        return {"kernel": "whitswcv", "mode": mode, "robust": cfg.get("robust"), "detail": detail,
                "p": C.model_value(m, z3.Real("p")) if mode == "p" else None}
    # exactly one kernel call on every path, and it is the documented one (decided per call under its path guard: p is symbolic)
    w.discharge(f"whitswcv[{mode}].kernel_called", pfacts, V.z_or(*[c["guard"] for c in calls]) if calls else z3.BoolVal(False), concretize=conc)
    for k, c in enumerate(calls):
        want_fn = "ws2dwcvp" if mode == "p" else "ws2dwcv"
        ok = c["func"] == want_fn
        if ok:
            sr = c["args"][3] if mode == "p" else c["args"][2]
            rb = c["args"][4] if mode == "p" else c["args"][3]
            exp = [V.fr(float(x)) for x in np.arange(-1.8, 4.2, 0.2, dtype="float64")]
            got = it.arr_values(st, sr) if hasattr(sr, "positions") else None
            ok = ok and got is not None and len(got) == len(exp) and all(V.same(a, b) or a == b for a, b in zip(got, exp))
            ok = ok and (rb is (True if cfg.get("robust") is None else cfg["robust"]))
            if mode == "p":
                ok = ok and V.same(c["args"][2], z3.Real("p"))
            detail = {"func": c["func"], "robust": str(rb), "srange_len": None if got is None else len(got)}
        w.discharge(f"whitswcv[{mode}].defaults_and_dispatch[call {k}]", pfacts, z3.BoolVal(bool(ok)), guard=c["guard"], concretize=conc)
    good = isinstance(ds, X.DatasetStub) and set(ds.vars) == {"band", "sgrid"} and ds.vars["sgrid"].dtype == "float32"
    w.discharge(f"whitswcv[{mode}].dataset_band_sgrid_float32", [], z3.BoolVal(bool(good)), concretize=conc)
    if good:
        f = it.A.uf("log10f")
        w.discharge(f"whitswcv[{mode}].sgrid_is_log10_lambda", [], S.eq(ds.vars["sgrid"].vals[0], f(z3.Real("lopt"))), concretize=conc)


def worker(w, cfg):
    {"kernel": w_kernel, "robust": w_robust, "accessor": w_accessor}[cfg["kind"]](w, cfg)


def configs(tier):
    cf = []
    for kname in ("ws2dwcv", "ws2dwcvp"):
        for n in ((5, 6) if tier == "quick" else (5, 6, 7)):
            for valid in S.gap_patterns(n, 5):
                for grid in ((2, 3, 4) if tier == "quick" else (2, 3, 4, 5)):
                    if kname == "ws2dwcvp" and grid > 2 and tier == "quick" and not (grid == 4 and all(valid) and n == 5):
                        continue
                    cf.append({"kind": "kernel", "kernel": kname, "valid": valid, "grid": grid, "inline": kname == "ws2dwcv" and grid == 2 and n == 5})
        for valid in ([True] * 5, [True] * 6, [True, True, False, True, True, True]):
            cf.append({"kind": "robust", "kernel": kname, "valid": valid})
    for mode in ("p", "nop"):
        for rb in (None, False):
            cf.append({"kind": "accessor", "mode": mode, "robust": rb})
    return cf


def replay_candidate(chk, c):
    r = chk.replayer.call("c05_gcv", **c["input"])
    return bool(r["violates"]), r


def main(tier, seed, nproc=None):
    chk = C.Check(PID, tier, seed)
    chk.assumptions = ["valid cells are integers with |x| <= 10000; floats are exact reals; results outside int16 outside the claim",
                       "products / quotients / pow10 uninterpreted and shared with the reference score; cos(k pi / m) eigenvalues are the same "
                       "constants in kernel and reference; all scores below the kernel's 1e15 start value",
                       "robust mode: only the 'no non-finite value' obligations are decided here (placeholder independence: C02); "
                       "equality with a reference robust loop is not encoded"]
    chk.bounds = {"n": "5..6 quick / 7 thorough, every gap pattern with >= 5 valid cells", "srange": "symbolic start/step, 2..3 (4) entries",
                  "robust": "n = 5, 6 with and without a gap, 4 robust iterations as coded"}
    chk.outside = ["sranges with 5..40 entries", "reference robust loop equality", "float ties of the score"]
    from . import C02
    C02.validate(chk, seed)
    chk.run(worker, configs(tier), nproc)
    chk.confirm(lambda c: replay_candidate(chk, c))
    return chk.finish(
        rule="per kernel, gap pattern and grid length: lambda in 10**srange minimising the reference GCV score, band = fixed smoother at lambda; "
             "robust: every division / sqrt obligation; accessor defaults; non-trivial = >= 1 free variable; distinct by goal hash",
        explanation="GCV kernels executed symbolically next to a reference score written from the statement; order reasoning over opaque "
                    "scores decides the arg-min logic; degenerate robust weights are found as unguarded divisions and replayed")


def replay(path):
    chk = C.Check(PID, "quick", 0)
    c = json.load(open(path))
    ok, detail = replay_candidate(chk, c)
    chk.replayer.close()
    print(json.dumps(detail, default=str)[:2000])
    if ok:
        print(f"VIOLATION property={PID} replay={path}")
        return 1
    return 0
