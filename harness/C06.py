"""C06 - smoothers keep linear series, commute with offsets and time reversal (DESIGN 5, C06).

L1: the three facts about the core solver ws2d, decided exactly (QF_LRA) per (n, weight vector, lambda) for all y, c, a, b.
L2: every smoother executed twice (original / transformed input) with ws2d abstracted to an uninterpreted family; the L1
    facts are instantiated at corresponding call pairs (both runs make the same sequence of ws2d calls because control flow
    is if-converted). Everything else (weights, criteria, arg-min, rounding) is decided by the solver.
"""
import itertools
import json
from fractions import Fraction as F

import z3

from . import common as C
from . import smooth as S
from pysym import vals as V
from pysym.interp import State
from pysym.vals import Unsupported

PID = "C06"
L1_LAMBDAS = [F(1, 1000), F(3, 10), F(10), F(10**5)]


# ---------------------------------------------------------------- L1
def ws2d_exact(it, ys, lam, wv):
    st = State()
    fn = it.get_function("hdc.algo.ops.ws2d", "ws2d")
    y = it.new_array(st, (len(ys),), "float64", cells=list(ys))
    ww = it.new_array(st, (len(ys),), "float64", cells=[V.fr(x) for x in wv])
    z = it.call_function(st, fn, [y, V.fr(lam), ww])
    return [V.to_real(v) for v in it.arr_values(st, z)]


def w_l1(w, cfg):
    n, lam = cfg["n"], F(cfg["lam"])
    ys = [z3.Real(f"y{i}") for i in range(n)]
    c, a, b = z3.Real("c"), z3.Real("a"), z3.Real("b")
    for wv in cfg["weights"]:
        wv = [F(x) for x in wv]
        w.config = {"n": n, "lam": str(lam), "w": [str(x) for x in wv]}
        it = C.new_interp(policy="exact")
        z0 = ws2d_exact(it, ys, lam, wv)
        w.res.encoded.update(it.encoded)

        def conc(m, wv=wv):
            return {"kind": "l1", "y": [C.model_value(m, v) for v in ys], "w": wv, "lam": lam, "c": C.model_value(m, c),
                    "a": C.model_value(m, a), "b": C.model_value(m, b)}
        zs = ws2d_exact(it, [y + c for y in ys], lam, wv)
        w.discharge("ws2d.offset", [], z3.And(*[p == q + c for p, q in zip(zs, z0)]), concretize=conc, sample=True)
        free = [z3.Real(f"f{i}") for i in range(n)]
        ym = [ys[i] if wv[i] > 0 else free[i] for i in range(n)]
        zm = ws2d_exact(it, ym, lam, wv)
        w.discharge("ws2d.zero_weight_cells_ignored", [], z3.And(*[p == q for p, q in zip(zm, z0)]), concretize=conc)
        yl = [(a + b * i) if wv[i] > 0 else free[i] for i in range(n)]
        zl = ws2d_exact(it, yl, lam, wv)
        w.discharge("ws2d.linear_reproduced", [], z3.And(*[zl[i] == a + b * i for i in range(n)]), concretize=conc)
        zr = ws2d_exact(it, ys[::-1], lam, wv[::-1])
        w.discharge("ws2d.reversal", [], z3.And(*[zr[i] == z0[n - 1 - i] for i in range(n)]), concretize=conc)


# ---------------------------------------------------------------- L2
def lemma_offset(ca, cb, c):
    n = len(ca["y"])
    pre = [ca["lam"] == cb["lam"]] + [ca["w"][i] == cb["w"][i] for i in range(n)]
    pre += [z3.Or(ca["w"][i] == 0, cb["y"][i] == ca["y"][i] + c) for i in range(n)]
    return z3.Implies(z3.And(*pre), z3.And(*[cb["z"][i] == ca["z"][i] + c for i in range(n)]))


def lemma_reversal(ca, cb):
    n = len(ca["y"])
    pre = [ca["lam"] == cb["lam"]] + [cb["w"][i] == ca["w"][n - 1 - i] for i in range(n)]
    pre += [z3.Or(cb["w"][i] == 0, cb["y"][i] == ca["y"][n - 1 - i]) for i in range(n)]
    return z3.Implies(z3.And(*pre), z3.And(*[cb["z"][i] == ca["z"][n - 1 - i] for i in range(n)]))


def lemma_linear(ca, a, b):
    n = len(ca["y"])
    pos = z3.Sum([z3.If(ca["w"][i] > 0, 1, 0) for i in range(n)])
    pre = [ca["lam"] > 0, pos >= 2] + [ca["w"][i] >= 0 for i in range(n)]
    pre += [z3.Or(ca["w"][i] == 0, ca["y"][i] == a + b * i) for i in range(n)]
    return z3.Implies(z3.And(*pre), z3.And(*[ca["z"][i] == a + b * i for i in range(n)]))


def kargs(kname, cells, nd, par):
    a = {"y": cells, "nodata": z3.ToReal(nd), "lmda": par["lam"], "p": par["p"], "llas": par["llas"], "robust": par.get("robust", False)}
    return a


def w_l2(w, cfg):
    kname, valid, rel = cfg["kernel"], cfg["valid"], cfg["relation"]
    n = len(valid)
    it = S.new_interp()
    recA, recB = [], []
    px = S.Pixel(n, valid, bound=5000)
    nd, c, a, b = z3.Int("nd"), z3.Int("c"), z3.Int("a"), z3.Int("b")
    lam, p = z3.Real("lam"), z3.Real("p")
    llas, gf, (l0, step) = S.grid_terms(cfg.get("grid", 3))
    robust = cfg.get("robust", False)
    par = {"lam": lam, "p": p, "llas": llas, "robust": robust}
    facts = px.facts(nd) + gf + [lam > 0, p > 0, p < 1, c >= -5000, c <= 5000]
    cellsA = px.cells(nd)
    if rel == "offset":
        ndB = nd + c
        cellsB = [(z3.ToReal(x) + z3.ToReal(c) if robust else z3.ToReal(x + c)) if v else z3.ToReal(ndB) for x, v in zip(px.xs, px.valid)]
        facts += [x + c != ndB for x, v in zip(px.xs, px.valid) if v]
    elif rel == "reversal":
        ndB = nd
        cellsB = cellsA[::-1]
    else:  # linear
        ndB = nd
        facts += [px.xs[i] == a + b * i for i in range(n) if valid[i]] + [a >= -5000, a <= 5000, b >= -100, b <= 100]
        cellsB = None
    it.assume(*facts)
    S.abstract_ws2d(it, recA)
    rA = S.call_kernel(it, State(), kname, kargs(kname, cellsA, nd, par))
    lem = []
    if cellsB is not None:
        # robust GCV: the offset lemma is applied as a rewrite at every call of the second run (abstract_ws2d(shift=c))
        S.abstract_ws2d(it, recB, shift=z3.ToReal(c) if robust else None)
        it.A.factor_shift = z3.ToReal(c) if robust else None
        rB = S.call_kernel(it, State(), kname, kargs(kname, cellsB, ndB, par))
        it.A.factor_shift = None
        if len(recA) != len(recB):
            raise Unsupported("the two runs made different numbers of ws2d calls")
        for ca, cb in ([] if robust else zip(recA, recB)):
            lem.append(lemma_offset(ca, cb, z3.ToReal(c)) if rel == "offset" else lemma_reversal(ca, cb))
    else:
        for ca in recA:
            lem.append(lemma_linear(ca, z3.ToReal(a), z3.ToReal(b)))
    w.res.encoded.update(it.encoded)
    assume = facts + it.cast_assumptions
    # robust pairs: where the two runs built the same terms the claims need no ground lemma about the uninterpreted products
    # (unsat without them is unsat with them); they are only a burden for the arithmetic solver
    lemmas = [] if robust else list(it.A.lemmas) + lem

    def conc(m):
        return {"kind": "l2", "kernel": kname, "relation": rel, "data": [C.model_value(m, x) if v else None for x, v in zip(px.xs, px.valid)],
                "nodata": C.model_value(m, nd), "c": C.model_value(m, c), "a": C.model_value(m, a), "b": C.model_value(m, b),
                "lam": C.model_value(m, lam), "p": C.model_value(m, p), "l0": C.model_value(m, l0), "lstep": C.model_value(m, step),
                "grid": cfg.get("grid", 3), "robust": robust}
    tag = f"{kname}{'[robust]' if robust else ''}.{rel}"
    to = min(w.timeout_ms, 30000)
    wb = rf = None
    if robust:
        to, rf = 5000, 10000     # these pairs fold or decide in < 1 s when they hold; a fresh-context retry absorbs solver luck
        # partial assignments tried when a query is not decided (a model under them is a counterexample all the same): data
        # with exact zeros / repeated values, which is where value-dependent masks differ between the two runs
        pools = ([0, 40, -20, 0, 60, 10, 30, 0], [5, 0, 0, 25, -10, 15, 0, 35], [100, 100, 0, 100, 50, 0, 100, 75])
        wb = [[x == pl[i] for i, x in enumerate(px.xs)] + [c == cc, nd == -3000] for pl in pools for cc in (7, -40)]
    if rel == "linear":
        for i in range(n):
            w.discharge(f"{tag}.line_kept[{i}]", assume, S.eq(rA["out"][i], a + b * i), lemmas=lemmas, concretize=conc,
                        sample=(i == 0), first_timeout_ms=to)
        return
    verdicts = []
    if rA["lopt"] is not None:
        verdicts.append(w.discharge(f"{tag}.same_lambda", assume, S.eq(rA["lopt"], rB["lopt"]), lemmas=lemmas, concretize=conc,
                                    first_timeout_ms=to, retry_fresh_ms=rf))
        if robust and verdicts[-1] not in ("unsat", "sat", "folded"):
            to = 3000    # siblings of an undecided claim get a short budget
    for i in range(n):
        if rel == "offset":
            # exact up to the half-even tie: rhe(z + c) and rhe(z) + c differ (by one) only if z sits exactly on .5 and c is odd
            zu = recA[-1]["z"][i]
            tie = (zu - z3.ToReal(z3.ToInt(zu))) == z3.RealVal(F(1, 2))
            ob_, oa_ = V.to_z3(rB["out"][i]), V.to_z3(rA["out"][i])
            if z3.is_int(ob_) and z3.is_int(oa_):
                d = ob_ - oa_ - c
            else:
                d = V.to_real(ob_) - (V.to_real(oa_) + z3.ToReal(c))
            claim = z3.Or(d == 0, z3.And(tie, d >= -1, d <= 1))
        else:
            claim = S.eq(rB["out"][i], rA["out"][n - 1 - i])
        verdicts.append(w.discharge(f"{tag}.output[{i}]", assume, claim, lemmas=lemmas, concretize=conc, sample=(i == 0),
                                    first_timeout_ms=to, retry_fresh_ms=rf))
        if robust and verdicts[-1] not in ("unsat", "sat", "folded"):
            to = 3000
    if wb and any(v not in ("unsat", "sat", "folded") for v in verdicts):
        # the pair could not be decided: the two runs no longer build the same terms. Hand the replayer inputs that satisfy the
        # assumptions (one per witness assignment); only a deviation of the real kernel is reported.
        for wbs in wb:
            v0, m0, _ = C.check_sat(list(assume) + list(wbs), 10000)
            if v0 == "sat":
                w.res.candidates.append({"obligation": f"{tag}[undecided pair; input from a model of the assumptions]", "config": w.config,
                                         "known": None, "input": C.jsonable(conc(m0))})
    w.vacuity(f"{tag}.assumptions", facts)


def worker(w, cfg):
    {"l1": w_l1, "l2": w_l2}[cfg["kind"]](w, cfg)


SYMMETRIC = ("ws2dgu", "ws2doptv", "ws2dwcv")
REVERSIBLE = ("ws2dgu", "ws2doptv", "ws2dpgu")
LINEAR = ("ws2dgu", "ws2dpgu", "ws2dwcv", "ws2dwcvp")


def configs(tier):
    cf = []
    from .C01 import weight_vectors, graded_vectors
    for n in range(4, (6 if tier == "quick" else 8) + 1):
        wvs = weight_vectors(n, tier) + (graded_vectors(n, tier) if n <= 4 or tier != "quick" else [])
        for lam in L1_LAMBDAS:
            for k in range(0, len(wvs), 48):
                cf.append({"kind": "l1", "n": n, "lam": str(lam), "weights": [[str(x) for x in v] for v in wvs[k:k + 48]]})
    nl2 = (5,) if tier == "quick" else (5, 6)
    for n in nl2:
        for kname in SYMMETRIC:
            minv = 5 if kname == "ws2dwcv" else 2
            nn = n + 1 if kname == "ws2dwcv" else n
            for valid in S.gap_patterns(nn, max(minv, nn - 2)):
                cf.append({"kind": "l2", "kernel": kname, "valid": valid, "relation": "offset", "grid": 2 if kname == "ws2dwcv" else 3})
        for valid in S.gap_patterns(n + 1, max(5, n - (0 if tier == "quick" else 1))):
            # robust GCV (4 reweighting passes): offset pairs with ws2d's commutation applied as a rewrite
            cf.append({"kind": "l2", "kernel": "ws2dwcv", "valid": valid, "relation": "offset", "grid": 2, "robust": True})
        for kname in REVERSIBLE:
            for valid in S.gap_patterns(n, n - 1 if kname in ("ws2dpgu", "ws2doptvp") else n - 2):
                cf.append({"kind": "l2", "kernel": kname, "valid": valid, "relation": "reversal", "grid": 3})
        for kname in LINEAR:
            minv = 5 if kname.startswith("ws2dwcv") else 2
            nn = n + 1 if kname.startswith("ws2dwcv") else n
            for valid in S.gap_patterns(nn, max(minv, nn - 2)):
                cf.append({"kind": "l2", "kernel": kname, "valid": valid, "relation": "linear", "grid": 2})
    return cf


def replay_candidate(chk, c):
    r = chk.replayer.call("c06_relations", **c["input"])
    return bool(r["violates"]), r


def main(tier, seed, nproc=None):
    chk = C.Check(PID, tier, seed)
    chk.assumptions = ["L2 uses the three ws2d facts for every lambda > 0 and every non-negative weight vector, although L1 establishes them on a grid",
                       "valid cells integers, |x| + |c| <= 10000; floats exact reals (so rounding ties only arise exactly: rhe(z + c) = rhe(z) + c)",
                       "offset commutation of whole asymmetric kernels (pgu, optvp, optvplc, wcvp) is NOT claimed: their reweighting starts from "
                       "the zero curve, which is not offset-invariant (DESIGN C06)",
                       "robust GCV (ws2dwcv, 4 reweighting passes): offset pairs with ws2d's commutation applied as a rewrite at every call "
                       "of the second run and np.median uninterpreted; reversal of the robust scheme is not claimed (median as an "
                       "uninterpreted function of the ordered vector)",
                       "linear clause for the V-curve kernels is outside: in exact arithmetic log(fit) is undefined on an exact fit"]
    chk.bounds = {"L1": f"n = 4..{6 if tier == 'quick' else 8}, C01's weight vectors, lambda in {[str(x) for x in L1_LAMBDAS]}, all y / c / a / b",
                  "L2": "n = 5 (6 for GCV) quick, +1 thorough; gap patterns with <= 2 gaps; symbolic lambda, p, grid (2-3 entries); "
                        "robust GCV offset pairs: n = 6 (7), <= 1 (2) gaps"}
    chk.outside = ["series longer than the bound", "float rounding ties / criterion ties", "offset commutation of asymmetric kernels beyond ws2d's own commutation"]
    from . import C02
    C02.validate(chk, seed)
    chk.run(worker, configs(tier), nproc)
    chk.confirm(lambda c: replay_candidate(chk, c))
    return chk.finish(
        rule="L1: four identities per (n, weights, lambda) for all y; L2: per kernel / relation / gap pattern one query per output cell "
             "and for lambda; non-trivial = >= 1 free variable; distinct by goal hash",
        explanation="two symbolic executions per relation with ws2d abstracted and its exactly-proved commutation facts instantiated at "
                    "corresponding calls; z3 decides equality of the selection criteria and outputs")


def replay(path):
    chk = C.Check(PID, "quick", 0)
    c = json.load(open(path))
    ok, detail = replay_candidate(chk, c)
    chk.replayer.close()
    print(json.dumps(detail, default=str)[:2000])
    if ok:
        print(f"VIOLATION property={PID} replay={path}")
        return 1
    return 0
