"""C07 - SPI equals the gamma-MLE / zero-mixture / normal-quantile definition: the COMPOSITION around the numerical kernels
(DESIGN 5, C07). Brent's iteration, digamma, the incomplete gamma function and the normal quantile are contracts
(uninterpreted, shared by kernel and reference model)."""
import itertools
import json

import z3

from . import common as C
from . import spi as P
from pysym import vals as V
from pysym.interp import State
from pysym.vals import Unsupported

PID = "C07"


def ref_scaled(it, st, cells, nd, c0, c1):
    fn = it.get_function("refs.spi_ref", "spi_scaled")
    arr = it.new_array(st, (len(cells),), "float64", cells=[V.to_real(c) for c in cells])
    r = it.call_function(st, fn, [arr, z3.ToReal(nd), c0, c1])
    return [st.heap[r.bufid][p] for p in r.positions()]


def eq(a, b):
    if V.same(a, b):
        return z3.BoolVal(True)
    return V.to_real(V.num_of_bool(a)) == V.to_real(V.num_of_bool(b))


def discharge_split(w, name, assume, claim, split, **kw):
    """Decide `claim`; if the solver does not finish, decide it separately under `split` and under `not split` (a case
    distinction - both cases together are the original obligation)."""
    budget = kw.pop("first_timeout_ms", 60000)
    v = w.discharge(name, assume, claim, first_timeout_ms=min(budget, 15000), **kw)
    if v in ("unsat", "sat", "folded"):
        return v
    w.res.queries.pop()          # replaced by the two cases below
    v1 = w.discharge(name + "[case: reference cell is nodata]", list(assume) + [split], claim, first_timeout_ms=budget, **kw)
    v2 = w.discharge(name + "[case: reference cell is an index]", list(assume) + [z3.Not(split)], claim, first_timeout_ms=budget, **kw)
    return "unsat" if (v1 in ("unsat", "folded") and v2 in ("unsat", "folded")) else "unknown"


def w_yxt(w, cfg):
    T, missing, (c0, c1) = cfg["T"], cfg["missing"], cfg["window"]
    two = cfg.get("two_pixels", False)
    it = P.new_interp()
    it.assume_casts_in_range = True
    px = P.SpiPixel(T, missing)
    py = P.SpiPixel(T, [False] * T, tag="b")
    nd = z3.Int("nd")
    facts = px.facts(nd) + (py.facts(nd) if two else []) + [nd < 0, nd >= -32768]
    it.assume(*facts)
    st = State()
    fn = it.get_function(P.MOD, "gammastd_yxt")
    npx = 2 if two else 1
    cube = it.new_array(st, (1, npx, T), "int16", cells=px.cells(nd) + (py.cells(nd) if two else []))
    cube.readonly = True
    kwargs = {}
    if (c0, c1) != (0, T) or cfg.get("explicit"):
        kwargs = {"cal_start": c0, "cal_stop": c1}
    it.A.shadow = True            # float64 shadows on the concrete counts / shares (DESIGN 4.2 "float shadows")
    it.narrow = {}                # single-precision tags: float ufuncs on 8/16-bit integer or float32 arrays, sums of float32 arrays
    res = it.call_function(st, fn, [cube, nd], kwargs)
    kernel_obs = [ob for ob in it.obligations if ob.kind == "float-divergence"]
    narrow_obs = [ob for ob in it.obligations if ob.kind == "narrow-arithmetic"]
    it.narrow = None
    it.A.shadow = False
    if not hasattr(res, "positions") or res.shape != (1, npx, T):
        raise Unsupported("gammastd_yxt result shape")
    got = [st.heap[res.bufid][p] for p in res.positions()]
    ref0 = ref_scaled(it, st, px.cells(nd), nd, c0, c1)
    ref1 = ref_scaled(it, st, py.cells(nd), nd, c0, c1) if two else None
    w.res.encoded.update(it.encoded)
    assume = facts + it.cast_assumptions
    lem = list(it.A.lemmas)

    def conc(m):
        pix = [[C.model_value(m, c) for c in px.cells(nd)]] + ([[C.model_value(m, c) for c in py.cells(nd)]] if two else [])
        return {"entry": "yxt", "pixels": pix, "nodata": C.model_value(m, nd), "window": [c0, c1]}
    w.discharge("gammastd_yxt.dtype_int16", [], z3.BoolVal(res.dtype == "int16"), concretize=conc)
    for k, ob in enumerate(narrow_obs[:4]):
        # an operation Numba carries out in single precision on the way to the fit (the statement asks for the exact rounded value)
        w.discharge(f"gammastd_yxt.single_precision_arithmetic[{k}]@{ob.where}", assume, ob.claim, guard=ob.guard,
                    concretize=lambda m: dict(conc(m), precision=True))
    for k, ob in enumerate(kernel_obs):
        # a threshold comparison on a concrete share that float64 decides differently from the exact value
        w.discharge(f"gammastd_yxt.float_divergence[{k}]@{ob.where}", assume, ob.claim, guard=ob.guard, concretize=conc)
    for i in range(T):
        w.discharge(f"gammastd_yxt.pixel0[{i}]", assume, eq(got[i], ref0[i]), lemmas=lem, concretize=conc, sample=(i == 0),
                    first_timeout_ms=min(w.timeout_ms, 60000))
        if two:
            w.discharge(f"gammastd_yxt.pixel1[{i}]", assume, eq(got[T + i], ref1[i]), lemmas=lem, concretize=conc,
                        first_timeout_ms=min(w.timeout_ms, 60000))
    w.vacuity("gammastd_yxt.assumptions", facts)


def w_grp(w, cfg):
    """Numba's default argsort / sort is not stable: when the kernel orders by a key with ties, the evaluation is repeated with
    the ties in reverse order (one admissible outcome of an unstable sort) and the same claims are decided again."""
    if _w_grp(w, cfg, "stable", ""):
        _w_grp(w, cfg, "reversed", "[unstable sort: ties reversed]")


def _w_grp(w, cfg, ties, sfx):
    groups, missing = cfg["groups"], cfg["missing"]
    T = len(groups)
    it = P.new_interp()
    it.unstable_ties = ties
    it.assume_casts_in_range = True
    px = P.SpiPixel(T, missing)
    nd = z3.Int("nd")
    facts = px.facts(nd) + [nd < 0, nd >= -32768]
    it.assume(*facts)
    st = State()
    fn = it.get_function(P.MOD, "gammastd_grp")
    ng = max(groups) + 1
    members = {g: [i for i in range(T) if groups[i] == g] for g in range(ng)}
    cal = cfg["cal"]
    calflat = [v for g in range(ng) for v in cal[g]]
    out = C.make_out(it, st, (T,), "int16", "yy")
    xx = it.new_array(st, (T,), "int16", cells=px.cells(nd))
    xx.readonly = True
    it.A.shadow = True
    it.call_function(st, fn, [xx, it.new_array(st, (T,), "int16", cells=list(groups)), ng, z3.ToReal(nd),
                              it.new_array(st, (ng, 2), "int16", cells=calflat), out])
    kernel_obs = [ob for ob in it.obligations if ob.kind == "float-divergence"]
    it.A.shadow = False
    got, written = C.out_values(it, st, out)
    w.res.encoded.update(it.encoded)
    cells = px.cells(nd)
    assume = facts + it.cast_assumptions
    lem = None

    def conc(m):
        return {"entry": "grp", "pixels": [[C.model_value(m, c) for c in cells]], "nodata": C.model_value(m, nd), "groups": groups, "cal": cal}
    for k, ob in enumerate(kernel_obs):
        w.discharge(f"gammastd_grp.float_divergence[{k}]@{ob.where}{sfx}", assume, ob.claim, guard=ob.guard, concretize=conc)
    for g in range(ng):
        sub = [cells[i] for i in members[g]]
        ref = ref_scaled(it, st, sub, nd, cal[g][0], cal[g][1])
        lem = list(it.A.lemmas)
        for k, i in enumerate(members[g]):
            w.discharge(f"gammastd_grp.written[{i}]{sfx}", assume, written[i], lemmas=lem, concretize=conc)
            discharge_split(w, f"gammastd_grp.group{g}[{i}]{sfx}", assume, eq(got[i], ref[k]), V.to_real(ref[k]) == z3.ToReal(nd), lemmas=lem,
                            concretize=conc, first_timeout_ms=min(w.timeout_ms, 60000))
    return bool(getattr(it, "unstable_sort_used", False))


def worker(w, cfg):
    {"yxt": w_yxt, "grp": w_grp}[cfg["kind"]](w, cfg)


def configs(tier):
    cf = []
    Ts = (3, 4) if tier == "quick" else (3, 4, 5)
    for T in Ts:
        wins = [(a, b) for a in range(T) for b in range(a + 2, T + 1)]
        for classes in itertools.product("mnzp", repeat=T):
            if T >= 4 and tier == "quick" and (classes.count("m") > 1 or classes.count("n") > 1):
                continue
            if T >= 5 and (classes.count("m") > 1 or classes.count("n") > 1 or classes.count("z") > 2):
                continue
            for win in wins:
                if T == 4 and tier == "quick" and win not in ((0, 4), (1, 3), (0, 2), (2, 4)):
                    continue
                if T == 5 and win not in ((0, 5), (1, 4), (0, 3), (2, 5)):
                    continue
                cf.append({"kind": "yxt", "T": T, "missing": list(classes), "window": win})
    # the 90 % boundary of the zero share, with two and three positive values (18/20, 27/30)
    cf.append({"kind": "yxt", "T": 20, "missing": ["z"] * 9 + ["p"] + ["z"] * 9 + ["p"], "window": (0, 20)})
    if tier == "thorough":
        cf.append({"kind": "yxt", "T": 30, "missing": ["z"] * 27 + ["p"] * 3, "window": (0, 30)})
        cf.append({"kind": "yxt", "T": 20, "missing": ["z"] * 17 + ["p"] * 3, "window": (0, 20)})
    for missing, win in ((["p"] * 3, (0, 3)), (["m", "p", "p"], (1, 3)), (["m", "m", "m"], (0, 3)), (["z", "p", "n"], (0, 3))):
        cf.append({"kind": "yxt", "T": 3, "missing": missing, "window": win, "two_pixels": True})
    cf.append({"kind": "yxt", "T": 3, "missing": [False] * 3, "window": (0, 3), "explicit": True})
    small = (([0, 1, 0, 1], [[0, 2], [0, 2]]), ([0, 0, 1, 1], [[0, 2], [0, 2]]), ([1, 0, 1, 0], [[0, 2], [0, 2]]), ([0, 0, 0], [[0, 3]]),
             ([0, 0, 0], [[1, 3]]), ([0, 1, 0, 1, 0], [[1, 3], [0, 2]]))
    big = (([0, 1, 0, 1, 0, 1], [[0, 3], [0, 3]]), ([0, 1, 0, 1, 0, 1], [[1, 3], [0, 2]]), ([0, 0, 0, 1, 1, 1], [[0, 2], [1, 3]]),
           ([1, 0, 1, 0, 1, 0], [[0, 3], [1, 3]]))
    # a group exactly at the 90 % boundary (18 zeros, 2 positives)
    cf.append({"kind": "grp", "groups": [0] * 20, "missing": ["z"] * 18 + ["p"] * 2, "cal": [[0, 20]]})
    for groups, cal in (small if tier == "quick" else small + big):
        T = len(groups)
        for missing in (["p"] * T, ["m" if i == 1 else "p" for i in range(T)], ["z" if i == 0 else ("n" if i == 3 else "p") for i in range(T)],
                        ["m" if groups[i] == 0 else "p" for i in range(T)]):
            cf.append({"kind": "grp", "groups": groups, "missing": missing, "cal": cal})
    return cf


def validate(chk, seed):
    import random
    rnd = random.Random(seed)
    ts = [0.5, 2.0, 1.0, 0.8, 0.3, 0.3, 0.2, 1.5, 0.8, 1.0]
    cases = [([int(v * 100) for v in ts], -9999, 0, 10)]
    for _ in range(12):
        T = rnd.randint(4, 12)
        nd = -9999
        x = [rnd.choice([nd, 0] + [rnd.randint(1, 500)] * 6) for _ in range(T)]
        a = rnd.randint(0, T - 3)
        cases.append((x, nd, a, rnd.randint(a + 2, T)))
    for x, nd, c0, c1 in cases:
        it = C.new_interp(concrete=True)
        it.extra_roots["refs"] = C.VERIF
        st = State()
        fn = it.get_function(P.MOD, "gammastd_yxt")
        cube = it.new_array(st, (1, 1, len(x)), "int16", cells=list(x))
        try:
            res = it.call_function(st, fn, [cube, nd], {"cal_start": c0, "cal_stop": c1})
            mine = it.arr_values(st, res)
        except Exception as e:  # noqa
            mine = f"raised {type(e).__name__}"
        real = chk.replayer.call("call", fn=f"{P.MOD}:gammastd_yxt", args=[{"nd": [[x]], "dtype": "int16"}, nd], kwargs={"cal_start": c0, "cal_stop": c1})
        realv = real.get("value")
        realv = realv[0][0] if realv is not None else f"raised {real.get('raised')}"
        chk.validate("gammastd_yxt (brentq / scipy.special executed concretely)", mine, realv, tol=1e-9)


def replay_candidate(chk, c):
    r = chk.replayer.call("c07_spi", **c["input"])
    return bool(r["violates"]), r


def main(tier, seed, nproc=None):
    chk = C.Check(PID, tier, seed)
    chk.assumptions = ["the claim is the WIRING around the numerical kernels: brentq(xa, xb, s) is 'the root in the bracket or 0', digamma / gammainc / "
                       "ndtri / log / sqrt are uninterpreted and shared by kernel and reference - their numerics (convergence, accuracy, float32 logs) "
                       "are outside", "observations are integers |x| <= 10000 of any sign, the nodata value is negative (a non-negative sentinel would "
                       "enter the zero / positive counts - outside this claim)", "results outside int16 are outside (C08)",
                       "concrete counts and shares carry float64 shadows: a comparison the double decides differently from the exact value is an "
                       "obligation (float-divergence); all other floats are exact reals"]
    chk.bounds = {"T": "3..4 quick / 5 thorough; every pattern of <= 2 nodata cells; every calibration window with >= 2 steps; plus pixels of "
                       "20 (30) steps exactly at the 90 % zero share",
                  "drivers": "gammastd_yxt on a 1x2 cube (second pixel all valid), gammastd_grp for interleaved / blocked / single groups"}
    chk.outside = ["Brent convergence, SciPy special-function accuracy, |SPI| > 7", "float32 inputs", "series longer than the bound"]
    validate(chk, seed)
    chk.run(worker, configs(tier), nproc)
    chk.confirm(lambda c: replay_candidate(chk, c))
    return chk.finish(
        rule="per series length, nodata pattern and calibration window: one query per output cell (kernel = reference); non-trivial = >= 1 free "
             "variable; distinct by goal hash",
        explanation="gammafit / gammastd / gammastd_yxt / gammastd_grp executed symbolically next to a reference written from the statement; z3 "
                    "decides cell-wise equality with the numerical kernels as shared uninterpreted contracts")


def replay(path):
    chk = C.Check(PID, "quick", 0)
    c = json.load(open(path))
    ok, detail = replay_candidate(chk, c)
    chk.replayer.close()
    print(json.dumps(detail, default=str)[:2000])
    if ok:
        print(f"VIOLATION property={PID} replay={path}")
        return 1
    return 0
