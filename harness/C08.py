"""C08 - SPI preserves the ordering of observations and never wraps or crashes (DESIGN 5, C08)."""
import itertools
import json

import z3

from . import common as C
from . import spi as P
from pysym import vals as V
from pysym.interp import State
from pysym.vals import Unsupported

PID = "C08"


def run_yxt(it, st, px, nd, win):
    fn = it.get_function(P.MOD, "gammastd_yxt")
    cube = it.new_array(st, (1, 1, px.T), "int16", cells=px.cells(nd))
    cube.readonly = True
    kwargs = {} if win is None else {"cal_start": win[0], "cal_stop": win[1]}
    res = it.call_function(st, fn, [cube, nd], kwargs)
    return [st.heap[res.bufid][p] for p in res.positions()]


def run_grp(it, st, px, nd, groups, cal):
    fn = it.get_function(P.MOD, "gammastd_grp")
    T = px.T
    ng = max(groups) + 1
    out = C.make_out(it, st, (T,), "int16", "yy")
    it.call_function(st, fn, [it.new_array(st, (T,), "int16", cells=px.cells(nd)), it.new_array(st, (T,), "int16", cells=list(groups)), ng,
                              z3.ToReal(nd), it.new_array(st, (ng, 2), "int16", cells=[v for g in cal for v in g]), out])
    return C.out_values(it, st, out)[0]


def w_safety(w, cfg):
    """E1 (no division by zero / domain error on any numeric series) and E4 (int16 store in range or saturated)."""
    T, classes, entry = cfg["T"], cfg["classes"], cfg["entry"]
    it = P.new_interp()
    px = P.SpiPixel(T, classes)
    nd = z3.Int("nd")
    facts = px.facts(nd) + [nd < 0, nd >= -32768]
    it.assume(*facts)
    st = State()
    if entry == "yxt":
        run_yxt(it, st, px, nd, cfg.get("window"))
    else:
        run_grp(it, st, px, nd, cfg["groups"], cfg["cal"])
    w.res.encoded.update(it.encoded)
    lem = list(it.A.lemmas)

    def conc(m):
        return {"entry": entry, "pixel": [C.model_value(m, c) for c in px.cells(nd)], "nodata": C.model_value(m, nd), "window": cfg.get("window"),
                "groups": cfg.get("groups"), "cal": cfg.get("cal"), "shape": "model"}
    seen = set()
    for ob in it.obligations:
        if ob.kind not in ("zero-division", "cast-range", "log-domain", "sqrt-domain"):
            continue
        key = (ob.kind, ob.where)
        if key in seen and ob.kind != "cast-range":
            continue
        if ob.kind == "cast-range" and (key, "cr") in seen:
            continue
        seen.add(key)
        if ob.kind == "cast-range":
            seen.add((key, "cr"))
        if ob.kind in ("log-domain", "sqrt-domain"):
            # log of a positive mean / positive value, sqrt of (s-3)^2 + 24 s: their arguments are positive for positive data; with
            # uninterpreted log these are not decidable here and they do not raise in compiled code - not asserted
            continue
        kp = {}
        shape = dict(conc.__defaults__ or ()) if False else None
        if ob.kind == "zero-division":
            kp = {"C08-all-negative-zero-division": z3.BoolVal(True)}
            cc = lambda m, ob=ob: dict(conc(m), shape="zero-division")  # noqa: E731
        else:
            kp = {"C08-int16-wrap": z3.BoolVal(True)}
            cc = lambda m, ob=ob: dict(conc(m), shape="extreme")  # noqa: E731
        w.discharge(f"{entry}.{ob.kind}@{ob.where}", facts, ob.claim, guard=ob.guard, lemmas=lem, concretize=cc, known_preds=kp,
                    first_timeout_ms=min(w.timeout_ms, 20000), sample=(ob.kind == "cast-range"))
    w.vacuity(f"{entry}.assumptions", facts)


def w_order(w, cfg):
    """E3: within one pixel the index is a non-decreasing function of the observation; equal observations get equal indices."""
    T, classes, win = cfg["T"], cfg["classes"], cfg.get("window")
    it = P.new_interp()
    it.assume_casts_in_range = True
    px = P.SpiPixel(T, classes)
    nd = z3.Int("nd")
    facts = px.facts(nd) + [nd < 0, nd >= -32768]
    it.assume(*facts)
    st = State()
    got = run_yxt(it, st, px, nd, win)
    w.res.encoded.update(it.encoded)
    mono = P.monotonic_lemmas(it, got)
    lem = list(it.A.lemmas) + mono
    cells = px.cells(nd)
    assume = facts + it.cast_assumptions

    def conc(m):
        return {"entry": "yxt", "pixel": [C.model_value(m, c) for c in cells], "nodata": C.model_value(m, nd), "window": win, "shape": "order"}
    idx = [i for i in range(T) if px.classes[i] in ("p", "z")]
    for i, j in itertools.combinations(idx, 2):
        xi, xj = V.to_real(cells[i]), V.to_real(cells[j])
        oi, oj = V.to_real(got[i]), V.to_real(got[j])
        both = z3.And(oi != z3.ToReal(nd), oj != z3.ToReal(nd))
        # (an index whose scaled value happens to coincide with the nodata number is indistinguishable from nodata: excluded by `both`)
        for nm, claim in (("le", z3.Implies(z3.And(both, xi <= xj), oi <= oj)), ("ge", z3.Implies(z3.And(both, xj <= xi), oj <= oi)),
                          ("eq", z3.Implies(xi == xj, oi == oj))):
            w.discharge(f"order[{i},{j}].{nm}", assume, claim, lemmas=lem, concretize=conc, first_timeout_ms=min(w.timeout_ms, 30000),
                        sample=(i, j, nm) == (idx[0], idx[1], "le"))
    # nodata / negative cells yield nodata
    for i in range(T):
        if px.classes[i] in ("m", "n"):
            w.discharge(f"nodata_and_negative_yield_nodata[{i}]", assume, V.to_real(got[i]) == z3.ToReal(nd), lemmas=lem, concretize=conc)


def w_nodata_resolution(w, cfg):
    """DataArray.hdc.algo.spi: the nodata value handed to the kernel is the `nodata` argument whenever one is given (ANY value, 0
    included), else the array's nodata attribute; only when neither exists the call is refused. The argument and the attribute are
    solver variables."""
    from . import C09 as H9
    from pysym.interp import Instance
    from pysym.lib import native
    T, grouped, has_arg, has_attr = 4, cfg["grouped"], cfg["arg"], cfg["attr"]
    it = C.new_interp(policy="exact")
    it.prune_mode = "facts"
    ts, facts = H9.sorted_stamps(T)
    arg, attr = z3.Int("nodata_arg"), z3.Int("nodata_attr")
    facts = facts + [arg >= -32768, arg <= 32767, attr >= -32768, attr <= 32767]
    it.assume(*facts)
    st = State()
    tix = H9.TimeIndex(it, st, ts)
    calls = []

    @native
    def apply_ufunc(it_, st_, func, *args, **kw):
        calls.append({"func": func.name, "args": args, "kwargs": kw.get("kwargs"), "guard": V.z_and(*st_.pc)})
        return H9.ResultStub()
    it.lib_overrides["xarray.apply_ufunc"] = apply_ufunc
    cls = it.get_function("hdc.algo.accessors", "PixelAlgorithms")
    cls.link_bases(it)
    inst = Instance(cls)
    inst.fields["_obj"] = H9.SpiObj(tix, T, {"nodata": attr} if has_attr else {})
    kwargs = {}
    if has_arg:
        kwargs["nodata"] = arg
    if grouped:
        kwargs["groups"] = ["0", "1", "0", "1"]
    it.call_function(st, cls.methods["spi"], [inst], kwargs)
    w.res.encoded.update(it.encoded)
    raised = V.z_or(*[g for g, k, m in st.exc_list])

    def conc(m):
        return {"accessor": True, "grouped": grouped, "arg": C.model_value(m, arg) if has_arg else None,
                "attr": C.model_value(m, attr) if has_attr else None}
    tag = f"spi.nodata[{'grouped' if grouped else 'plain'},arg={'given' if has_arg else 'None'},attr={'set' if has_attr else 'unset'}]"
    if not has_arg and not has_attr:
        w.discharge(f"{tag}.refused_with_ValueError", facts, V.z_or(*[g for g, k, m in st.exc_list if k == "ValueError"]), concretize=conc)
        return
    w.discharge(f"{tag}.accepted", facts, V.z_not(raised), concretize=conc)
    want = arg if has_arg else attr
    seen = False
    for c in calls:
        got = (c["kwargs"] or {}).get("nodata") if c["func"] == "gammastd_yxt" else (c["args"][3] if len(c["args"]) > 3 else None)
        if got is None:
            w.discharge(f"{tag}.kernel_receives_a_nodata_value", facts, z3.BoolVal(False), guard=c["guard"], concretize=conc)
            continue
        seen = True

        def eq_want(v):
            from pysym.interp import Choice
            if isinstance(v, Choice):
                return z3.If(V.to_z3(v.cond), eq_want(v.a), eq_want(v.b))
            if v is None:
                return z3.BoolVal(False)
            return V.to_real(V.num_of_bool(v)) == z3.ToReal(want)
        w.discharge(f"{tag}.kernel_receives_the_resolved_value", facts, eq_want(got), guard=c["guard"],
                    concretize=conc, sample=True)
    w.discharge(f"{tag}.kernel_called", facts, z3.BoolVal(seen), concretize=conc)


def worker(w, cfg):
    {"safety": w_safety, "order": w_order, "nodata": w_nodata_resolution}[cfg["kind"]](w, cfg)


def configs(tier):
    cf = []
    for T in ((3,) if tier == "quick" else (3, 4)):
        for classes in itertools.product("mnzp", repeat=T):
            cf.append({"kind": "safety", "entry": "yxt", "T": T, "classes": list(classes), "window": None})
    cf.append({"kind": "safety", "entry": "yxt", "T": 4, "classes": ["p", "p", "p", "p"], "window": (0, 2)})
    cf.append({"kind": "safety", "entry": "yxt", "T": 4, "classes": [False] * 4, "window": (1, 3)})
    for groups, cal in (([0, 1, 0, 1], [[0, 2], [0, 2]]), ([0, 0, 1, 1], [[0, 2], [0, 2]])):
        for classes in (["p"] * 4, ["n"] * 4, ["m", "p", "m", "p"], ["z", "p", "z", "p"], ["n", "p", "n", "p"]):
            cf.append({"kind": "safety", "entry": "grp", "T": 4, "classes": classes, "groups": groups, "cal": cal})
    for T in ((3, 4) if tier == "quick" else (3, 4, 5)):
        for classes in itertools.product("mnzp", repeat=T):
            if sum(1 for c in classes if c in "pz") < 2 or classes.count("p") < 2:
                continue
            if T >= 4 and (classes.count("m") + classes.count("n") > 1):
                continue
            wins = [None] if T == 3 else [None, (0, 2), (1, 3)]
            for win in wins:
                cf.append({"kind": "order", "T": T, "classes": list(classes), "window": win})
    for grouped in (False, True):
        for has_arg, has_attr in ((True, True), (True, False), (False, True), (False, False)):
            cf.append({"kind": "nodata", "grouped": grouped, "arg": has_arg, "attr": has_attr})
    return cf


def replay_candidate(chk, c):
    if c["input"].get("accessor"):
        r = chk.replayer.call("c08_accessor_nodata", grouped=c["input"]["grouped"], arg=c["input"]["arg"], attr=c["input"]["attr"])
    else:
        r = chk.replayer.call("c08_spi", **c["input"])
    return bool(r["violates"]), r


def main(tier, seed, nproc=None):
    chk = C.Check(PID, tier, seed)
    chk.assumptions = ["numerical kernels as contracts (C07) plus their monotonicity: gammainc(a, .) and ndtri non-decreasing, x/beta and k*x "
                       "monotone for beta > 0, k >= 0 (ground instances at the call sites); 0 <= gammainc <= 1; brentq >= 0",
                       "a float -> int16 store of a value outside the int16 range (or non-finite) is unspecified: every such store is an obligation",
                       "observations are integers |x| <= 10000, nodata negative"]
    chk.bounds = {"T": "3 quick / 3..4 thorough for the safety obligations (every cell-class pattern incl. all-negative / all-zero / all-nodata / constant); "
                       "ordering: T = 3..4 (5) with >= 2 positive cells", "drivers": "gammastd_yxt, gammastd_grp"}
    chk.outside = ["accuracy of the special functions in the tails", "float32 inputs", "mixed pixels beyond one cube row"]
    from . import C07
    C07.validate(chk, seed)
    chk.run(worker, configs(tier), nproc)
    chk.confirm(lambda c: replay_candidate(chk, c))
    return chk.finish(
        rule="per cell-class pattern: every scalar division (ZeroDivisionError) and every int16 store (range) is an obligation; per pair of valid "
             "cells: ordering of the indices; non-trivial = >= 1 free variable; distinct by goal hash",
        explanation="the SPI drivers executed symbolically; unguarded divisions and unclamped int16 stores are found as satisfying assignments "
                    "and replayed with witnesses shaped after them (all-negative pixel; an outlier far outside the calibration data)")


def replay(path):
    chk = C.Check(PID, "quick", 0)
    c = json.load(open(path))
    ok, detail = replay_candidate(chk, c)
    chk.replayer.close()
    print(json.dumps(detail, default=str)[:2000])
    if ok:
        print(f"VIOLATION property={PID} replay={path}")
        return 1
    return 0
