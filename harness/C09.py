"""C09 - SPI calibration window and grouping select exactly the intended samples (DESIGN 5, C09)."""
import itertools
import json

import z3

from . import common as C
from pysym import vals as V
from pysym.arr import Arr
from pysym.interp import State, Instance, SliceV
from pysym.lib import native, NativeBound, SymStr
from pysym.vals import Unsupported, z_or, z_not

PID = "C09"


class TimeIndex:
    """pandas.DatetimeIndex contract: sorted time stamps (symbolic integers), positional / boolean-mask indexing, comparisons."""

    def __init__(self, it, st, stamps):
        self.stamps = list(stamps)
        self.it, self.st = it, st

    def pysym_len(self, it, st):
        return len(self.stamps)

    def pysym_getattr(self, it, st, attr):
        if attr == "values":
            return it.new_array(st, (len(self.stamps),), "int64", cells=list(self.stamps))
        if attr == "size":
            return len(self.stamps)
        raise Unsupported(f"DatetimeIndex.{attr}")

    def pysym_getitem(self, it, st, idx):
        n = len(self.stamps)
        if isinstance(idx, SliceV):
            lo, hi = it.use(st, idx.lo), it.use(st, idx.hi)
            rng = range(*slice(lo, hi, None).indices(n))
            return TimeIndex(it, st, [self.stamps[i] for i in rng])
        if isinstance(idx, Arr) and idx.dtype == "bool":
            mask = it.arr_values(st, idx)
            if len(mask) != n:
                from pysym.interp import Raised
                raise Raised("IndexError", "boolean index did not match")
            if all(isinstance(m, bool) for m in mask):
                return TimeIndex(it, st, [s for s, m in zip(self.stamps, mask) if m])
            return MaskedIndex(self.stamps, mask)
        k = it.use(st, idx)
        if isinstance(k, int):
            if not -n <= k < n:
                from pysym.interp import Raised
                raise Raised("IndexError", "index out of bounds")
            return self.stamps[k]
        raise Unsupported("symbolic positional index into the time axis")

    def pysym_compare(self, it, st, sym, other, swapped):
        if swapped:
            sym = {"<": ">", ">": "<", "<=": ">=", ">=": "<="}.get(sym, sym)
        cells = [it.A.cmp(sym, s, other) for s in self.stamps]
        return it.new_array(st, (len(cells),), "bool", cells=cells)


class MaskedIndex:
    """tix[symbolic mask]: only [0] and [-1] are used (first / last selected stamp)."""

    def __init__(self, stamps, mask):
        self.stamps, self.mask = stamps, mask

    def pysym_getitem(self, it, st, idx):
        k = it.use(st, idx)
        n = len(self.stamps)
        anysel = z_or(*self.mask)
        it.oblige(st, "index-bounds", anysel, "first/last element of an empty selection")
        if k == 0:
            res = self.stamps[n - 1]
            for i in range(n - 2, -1, -1):
                res = it.A.ite(self.mask[i], self.stamps[i], res)
            return res
        if k == -1:
            res = self.stamps[0]
            for i in range(1, n):
                res = it.A.ite(self.mask[i], self.stamps[i], res)
            return res
        raise Unsupported("masked index other than [0] / [-1]")


def sorted_stamps(T):
    ts = [z3.Int(f"t{i}") for i in range(T)]
    return ts, [ts[i] < ts[i + 1] for i in range(T - 1)]


def w_indices(w, cfg):
    """get_calibration_indices: [start, stop) covers exactly the steps with begin <= t <= end (per group on the group's sub-series)."""
    T, groups = cfg["T"], cfg.get("groups")
    it = C.new_interp(policy="exact")
    it.prune_mode = "facts"
    ts, facts = sorted_stamps(T)
    b, e = z3.Int("begin"), z3.Int("end")
    it.assume(*facts)
    st = State()
    fn = it.get_function("hdc.algo.utils", "get_calibration_indices")
    time = TimeIndex(it, st, ts)

    def conc(m):
        return {"kind": "indices", "times": [C.model_value(m, t) for t in ts], "begin": C.model_value(m, b), "end": C.model_value(m, e), "groups": groups,
                "pass_num_groups": cfg.get("pass_num_groups", True)}
    if groups is None:
        res = it.call_function(st, fn, [time, (b, e)])
        w.res.encoded.update(it.encoded)
        start, stop = res
        for i in range(T):
            inside = z3.And(b <= ts[i], ts[i] <= e)
            w.discharge(f"ungrouped.step[{i}]_in_range_iff_inside_window", facts, z3.And(V.to_z3(start) <= i, i < V.to_z3(stop)) == inside,
                        concretize=conc, sample=(i == 0))
        w.discharge("ungrouped.bounds", facts, z3.And(V.to_z3(start) >= 0, V.to_z3(stop) <= T), concretize=conc)
        return
    ng = max(groups) + 1
    garr = it.new_array(st, (T,), "int16", cells=list(groups))
    kwargs = {"groups": garr}
    if cfg.get("pass_num_groups", True):
        kwargs["num_groups"] = ng
    res = it.call_function(st, fn, [time, (b, e)], kwargs)
    w.res.encoded.update(it.encoded)
    if not isinstance(res, Arr) or res.shape != (ng, 2):
        w.discharge("grouped.shape", [], z3.BoolVal(False), concretize=conc)
        return
    w.discharge("grouped.dtype_int16", [], z3.BoolVal(res.dtype == "int16"), concretize=conc)
    for g in range(ng):
        members = [i for i in range(T) if groups[i] == g]
        start = V.to_z3(st.heap[res.bufid][res.pos((g, 0))])
        stop = V.to_z3(st.heap[res.bufid][res.pos((g, 1))])
        for k, i in enumerate(members):
            inside = z3.And(b <= ts[i], ts[i] <= e)
            w.discharge(f"grouped.group{g}.member[{k}]_in_range_iff_inside_window", facts, z3.And(start <= k, k < stop) == inside, concretize=conc)
        w.discharge(f"grouped.group{g}.bounds", facts, z3.And(start >= 0, stop <= len(members)), concretize=conc)
    for ob in it.obligations:
        if ob.kind in ("cast-range", "index-bounds"):
            w.discharge(f"grouped.{ob.kind}@{ob.where}", facts, ob.claim, guard=ob.guard, concretize=conc)


def w_linspace(w, cfg):
    """to_linspace: dense codes 0..k-1 that induce the same partition, independent of what the labels are."""
    part, order = cfg["part"], cfg["order"]
    k = max(part) + 1
    it = C.new_interp(policy="exact")
    it.prune_mode = "facts"
    labels = [z3.Int(f"L{j}") for j in range(k)]
    facts = [labels[order[j]] < labels[order[j + 1]] for j in range(k - 1)]
    it.assume(*facts)
    st = State()
    fn = it.get_function("hdc.algo.utils", "to_linspace")
    x = it.new_array(st, (len(part),), "int64", cells=[labels[p] for p in part])
    codes, keys = it.call_function(st, fn, [x])
    w.res.encoded.update(it.encoded)
    cv = it.arr_values(st, codes)
    rank = {order[j]: j for j in range(k)}
    conc = lambda m: {"kind": "linspace", "part": part, "order": order}  # noqa: E731
    w.discharge("to_linspace.codes_are_ranks_of_the_labels", facts, z3.And(*[V.to_z3(c) == rank[p] for c, p in zip(cv, part)]), concretize=conc,
                sample=True)
    w.discharge("to_linspace.keys_sorted_and_complete", facts,
                z3.BoolVal(len(keys) == k) if len(keys) != k else z3.And(*[V.to_z3(keys[j]) == labels[order[j]] for j in range(k)]), concretize=conc)


class SpiObj:
    """The DataArray behind PixelAlgorithms.spi: dims, attrs, time index."""

    def __init__(self, tix, T, attrs):
        self.tix, self.T, self.attrs = tix, T, attrs
        self.dims = ("time", "y", "x")

    def pysym_getattr(self, it, st, attr):
        if attr == "dims":
            return self.dims
        if attr == "attrs":
            return self.attrs
        if attr == "get_index":
            return NativeBound(lambda it_, st_, selfv, name: self.tix, self)
        if attr == "time":
            return LenOnly(self.T)
        if attr == "data":
            return DataStub()
        raise Unsupported(f"DataArray.{attr}")


class LenOnly:
    def __init__(self, n):
        self.n = n

    def pysym_len(self, it, st):
        return self.n


class DataStub:
    def pysym_getattr(self, it, st, attr):
        if attr == "astype":
            return NativeBound(lambda it_, st_, selfv, dt: ("meta", dt), self)
        raise Unsupported(attr)


class ResultStub:
    def __init__(self):
        self.attrs = {}

    def pysym_getattr(self, it, st, attr):
        if attr == "attrs":
            return self.attrs
        raise Unsupported(attr)


def w_accessor(w, cfg):
    """PixelAlgorithms.spi: window validation, what is handed to the kernels, and the recorded calibration attributes."""
    T, has_b, has_e, groups = cfg["T"], cfg["begin"], cfg["end"], cfg.get("groups")
    it = C.new_interp(policy="exact")
    it.prune_mode = "facts"
    ts, facts = sorted_stamps(T)
    b, e = z3.Int("begin"), z3.Int("end")
    it.assume(*facts)
    st = State()
    tix = TimeIndex(it, st, ts)
    calls = []

    @native
    def apply_ufunc(it_, st_, func, *args, **kw):
        calls.append({"func": func.name, "args": args, "kwargs": kw.get("kwargs"), "guard": V.z_and(*st_.pc), "kw": kw})
        return ResultStub()
    it.lib_overrides["xarray.apply_ufunc"] = apply_ufunc
    cls = it.get_function("hdc.algo.accessors", "PixelAlgorithms")
    cls.link_bases(it)
    inst = Instance(cls)
    inst.fields["_obj"] = SpiObj(tix, T, {"nodata": -9999})
    kwargs = {}
    if has_b:
        kwargs["calibration_begin"] = b
    if has_e:
        kwargs["calibration_end"] = e
    if groups is not None:
        kwargs["groups"] = [str(g) for g in groups]
    res = it.call_function(st, cls.methods["spi"], [inst], kwargs)
    w.res.encoded.update(it.encoded)
    bb = b if has_b else ts[0]
    ee = e if has_e else ts[-1]
    inside = [z3.And(bb <= t, t <= ee) for t in ts]

    def conc(m):
        return {"kind": "accessor", "times": [C.model_value(m, t) for t in ts], "begin": C.model_value(m, b) if has_b else None,
                "end": C.model_value(m, e) if has_e else None, "groups": groups}
    raised_ve = z_or(*[g for g, k, m in st.exc_list if k == "ValueError"])
    raised_other = z_or(*[g for g, k, m in st.exc_list if k != "ValueError"])
    if groups is None:
        count = z3.Sum([z3.If(c, 1, 0) for c in inside])
        valid_window = count >= 2
    else:
        ng = max(groups) + 1
        per = [z3.Sum([z3.If(inside[i], 1, 0) for i in range(T) if groups[i] == g]) for g in range(ng)]
        valid_window = z3.And(*[p >= 2 for p in per])
    w.discharge("spi.invalid_window_raises_ValueError", facts + [z3.Not(valid_window)], raised_ve, concretize=conc)
    w.discharge("spi.valid_window_accepted", facts + [valid_window], z_not(z_or(raised_ve, raised_other)), concretize=conc, sample=True)
    w.discharge("spi.no_other_exception", facts, z_not(raised_other), concretize=conc)
    # what reaches the kernel
    for c in calls:
        g = V.to_z3(c["guard"])
        if c["func"] == "gammastd_yxt":
            kw = c["kwargs"] or {}
            s0, s1 = V.to_z3(kw.get("cal_start")), V.to_z3(kw.get("cal_stop"))
            claim = z3.And(*[(z3.And(s0 <= i, i < s1)) == inside[i] for i in range(T)])
            w.discharge("spi.kernel_window_is_the_inclusive_date_range", facts + [valid_window], claim, guard=g, concretize=conc)
        elif c["func"] == "gammastd_grp":
            garr, ngv, ndv, cal = c["args"][1], c["args"][2], c["args"][3], c["args"][4]
            codes = it.arr_values(st, garr)
            # string labels '0','1',... sort like the integers for < 10 groups: code = group id
            ok = all(V.same(cd, gg) or cd == gg for cd, gg in zip(codes, groups)) and ngv == max(groups) + 1
            w.discharge("spi.group_codes_dense", [], z3.BoolVal(bool(ok)), concretize=conc)
            for gid in range(max(groups) + 1):
                members = [i for i in range(T) if groups[i] == gid]
                s0 = V.to_z3(st.heap[cal.bufid][cal.pos((gid, 0))])
                s1 = V.to_z3(st.heap[cal.bufid][cal.pos((gid, 1))])
                claim = z3.And(*[(z3.And(s0 <= k, k < s1)) == inside[i] for k, i in enumerate(members)])
                w.discharge(f"spi.group{gid}_window_is_the_inclusive_date_range", facts + [valid_window], claim, guard=g, concretize=conc)
    # attributes: first and last step inside the window
    if isinstance(res, ResultStub) and res.attrs:
        first = ts[T - 1]
        for i in range(T - 2, -1, -1):
            first = z3.If(inside[i], ts[i], first)
        last = ts[0]
        for i in range(1, T):
            last = z3.If(inside[i], ts[i], last)

        def term_of(v):
            if isinstance(v, SymStr) and len(v.parts) == 1:
                return v.parts[0][1]
            return v
        try:
            claim = z3.And(V.to_z3(term_of(res.attrs.get("spi_calibration_begin"))) == first,
                           V.to_z3(term_of(res.attrs.get("spi_calibration_end"))) == last)
        except Exception:
            claim = z3.BoolVal(False)
        w.discharge("spi.attrs_first_and_last_step_in_window", facts + [valid_window], claim, concretize=conc)
    for ob in it.obligations:
        if ob.kind in ("index-bounds", "cast-range"):
            w.discharge(f"spi.{ob.kind}@{ob.where}", facts + [valid_window], ob.claim, guard=ob.guard, concretize=conc)


def worker(w, cfg):
    {"indices": w_indices, "linspace": w_linspace, "accessor": w_accessor}[cfg["kind"]](w, cfg)


def group_layouts(T, kmax):
    out = []
    for k in range(1, kmax + 1):
        for lab in itertools.product(range(k), repeat=T):
            if len(set(lab)) == k:
                out.append(list(lab))
    return out


def configs(tier):
    cf = []
    Tmax = 5 if tier == "quick" else 7
    for T in range(1, Tmax + 1):
        cf.append({"kind": "indices", "T": T})
    for T in range(2, (5 if tier == "quick" else 6) + 1):
        for g in group_layouts(T, 3):
            cf.append({"kind": "indices", "T": T, "groups": g, "pass_num_groups": (sum(g) % 2 == 0)})
    for n in range(1, (5 if tier == "quick" else 6) + 1):
        for part in group_layouts(n, 3):
            k = max(part) + 1
            for order in itertools.permutations(range(k)):
                cf.append({"kind": "linspace", "part": part, "order": list(order)})
    for T in (2, 3, 4):
        for hb in (False, True):
            for he in (False, True):
                cf.append({"kind": "accessor", "T": T, "begin": hb, "end": he})
    for groups in ([0, 1, 0, 1], [0, 0, 1, 1], [1, 0, 1, 0], [0, 0, 0, 0], [0, 1, 0, 1, 0, 1]):
        for hb, he in ((True, True), (False, True), (True, False), (False, False)):
            cf.append({"kind": "accessor", "T": len(groups), "begin": hb, "end": he, "groups": groups})
    return cf


def validate(chk, seed):
    import random
    rnd = random.Random(seed)
    for _ in range(12):
        T = rnd.randint(1, 8)
        times = sorted(rnd.sample(range(0, 60, 2), T))
        b = rnd.choice(times + [times[0] - 1, times[-1] + 1, times[0] + 1])
        e = rnd.choice(times + [times[0] - 1, times[-1] + 1, times[-1] - 1])
        it = C.new_interp(concrete=True)
        st = State()
        fn = it.get_function("hdc.algo.utils", "get_calibration_indices")
        res = it.call_function(st, fn, [TimeIndex(it, st, times), (b, e)])
        real = chk.replayer.call("c09_indices", times=times, begin=b, end=e, groups=None)["value"]
        chk.validate("get_calibration_indices (pandas / searchsorted contracts)", list(res), real)


def replay_candidate(chk, c):
    r = chk.replayer.call("c09_window", **c["input"])
    return bool(r["violates"]), r


def main(tier, seed, nproc=None):
    chk = C.Check(PID, tier, seed)
    chk.assumptions = ["time stamps are strictly increasing values of an ordered type (integers); begin / end are arbitrary values of that type "
                       "(on, between, before, after steps)", "pandas DatetimeIndex / searchsorted / np.unique replaced by contracts validated against the "
                       "libraries each run; group labels are values of an arbitrary total order, with the order of the k labels enumerated",
                       "grouped SPI = per-group ungrouped SPI on the kernel level is C07's grouped-driver claim"]
    chk.bounds = {"T": "1..5 quick / 7 thorough (ungrouped); 2..5/6 with every surjective labeling onto <= 3 groups",
                  "to_linspace": "every partition of <= 5/6 steps into <= 3 groups x every order of the labels", "accessor": "T = 2..4 ungrouped, 4..6 grouped"}
    chk.outside = ["more than 3 groups", "label types that are not totally ordered", "dask meta / dtype arguments"]
    validate(chk, seed)
    chk.run(worker, configs(tier), nproc)
    chk.confirm(lambda c: replay_candidate(chk, c))
    return chk.finish(
        rule="per axis length / labeling: one query per time step (index range <=> inside the inclusive window), per group, per validation rule and "
             "per attribute; non-trivial = >= 1 free variable; distinct by goal hash",
        explanation="utils.get_calibration_indices / to_linspace and the window logic of PixelAlgorithms.spi executed symbolically over index "
                    "contracts with symbolic time stamps and window bounds; z3 LIA decides the inclusive-window semantics")


def replay(path):
    chk = C.Check(PID, "quick", 0)
    c = json.load(open(path))
    ok, detail = replay_candidate(chk, c)
    chk.replayer.close()
    print(json.dumps(detail, default=str)[:2000])
    if ok:
        print(f"VIOLATION property={PID} replay={path}")
        return 1
    return 0
