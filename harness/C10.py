"""C10 - Mann-Kendall trend follows its definition (DESIGN 5, C10)."""
import json
import math
from fractions import Fraction

import z3

from . import common as C
from pysym import vals as V
from pysym import lib as L
from pysym.interp import State
from pysym.sig import gufunc_signatures
from pysym.vals import Unsupported

PID = "C10"
MOD = "hdc.algo.ops.stats"


def mk_interp(policy="uf"):
    it = C.new_interp(policy=policy)
    it.prune_mode = "off"

    def ndtri_hook(it_, st, args, r):
        a = args[0]
        if not V.is_sym(a) and abs(float(a) - 0.975) < 1e-12:
            it_.A.lemma(("ndtri975", 0), z3.And(r > z3.RealVal("1.9599"), r < z3.RealVal("1.96")))
    it.special_hooks["ndtri"] = ndtri_hook
    return it


def sgn(t):
    return z3.If(t > 0, 1, z3.If(t < 0, -1, 0))


def spec_S(xs):
    n = len(xs)
    return z3.Sum([sgn(xs[j] - xs[i]) for i in range(n - 1) for j in range(i + 1, n)]) if n > 1 else z3.IntVal(0)


def spec_var(xs):
    n = len(xs)
    tot = z3.IntVal(0)
    for i in range(n):
        t = z3.Sum([z3.If(xs[j] == xs[i], 1, 0) for j in range(n)])
        tot = tot + z3.Sum([z3.If(t == k, (k - 1) * (2 * k + 5), 0) for k in range(1, n + 1)])
    return (z3.ToReal(z3.IntVal(n * (n - 1) * (2 * n + 5)) - tot)) / 18


def symbolic_series(n):
    xs = [z3.Int(f"x{i}") for i in range(n)]
    assume = [z3.And(x >= -32768, x <= 32767) for x in xs]
    return xs, assume


def conc_of(xs, kind):
    return lambda m: {"kind": kind, "data": [C.model_value(m, x) for x in xs]}


def w_parts(w, cfg):
    """The building blocks, each against its definition."""
    n = cfg["n"]
    xs, assume = symbolic_series(n)
    conc = conc_of(xs, "parts")
    # S and tau
    it = mk_interp()
    st = State()
    arr = it.new_array(st, (n,), "int16", cells=list(xs))
    s, tau = it.call_function(st, it.get_function(MOD, "mk_score"), [arr])
    w.res.encoded.update(it.encoded)
    S = spec_S(xs)
    w.discharge("mk_score.S", assume, V.to_z3(s) == S, lemmas=it.A.lemmas, concretize=conc, sample=True)
    w.discharge("mk_score.tau", assume, V.to_real(tau) == z3.ToReal(S) / (Fraction(n * (n - 1), 2)), lemmas=it.A.lemmas, concretize=conc)
    # tie-corrected variance (products of tie counts: handed to z3 as integer polynomials)
    it = mk_interp("poly")
    st = State()
    arr = it.new_array(st, (n,), "int16", cells=list(xs))
    vs = it.call_function(st, it.get_function(MOD, "mk_variance_s"), [arr])
    w.res.encoded.update(it.encoded)
    w.discharge("mk_variance_s", assume, V.to_real(vs) == spec_var(xs), lemmas=it.A.lemmas, concretize=conc)
    for ob in it.obligations:
        w.discharge(f"mk_variance_s.{ob.kind}@{ob.where}", assume, ob.claim, guard=ob.guard, lemmas=it.A.lemmas, concretize=conc)
    # Sen's slope
    it = mk_interp()
    st = State()
    arr = it.new_array(st, (n,), "int16", cells=list(xs))
    slope, icpt = it.call_function(st, it.get_function(MOD, "mk_sens_slope"), [arr])
    w.res.encoded.update(it.encoded)
    lem = list(it.A.lemmas)
    ds = [(z3.ToReal(xs[j] - xs[i])) / (j - i) for i in range(n - 1) for j in range(i + 1, n)]
    N = len(ds)
    m = V.to_real(slope)
    below = z3.Sum([z3.If(d < m, 1, 0) for d in ds])
    above = z3.Sum([z3.If(d > m, 1, 0) for d in ds])
    if N % 2 == 1:
        claim = z3.And(z3.Or(*[d == m for d in ds]), 2 * below <= N - 1, 2 * above <= N - 1)
    else:
        # midpoint of the two middle order statistics a <= b
        a, b = z3.Real("med_lo"), z3.Real("med_hi")
        def ostat(v, k):
            lt = z3.Sum([z3.If(d < v, 1, 0) for d in ds])
            le = z3.Sum([z3.If(d <= v, 1, 0) for d in ds])
            return z3.And(z3.Or(*[d == v for d in ds]), lt < k, k <= le)
        lem = lem + [ostat(a, N // 2), ostat(b, N // 2 + 1)]
        claim = m == (a + b) / 2
    w.discharge("mk_sens_slope.median_of_pairwise_slopes", assume, claim, lemmas=lem, concretize=conc)


def w_trend(w, cfg):
    """mann_kendall_trend_1d composition (Z with continuity correction, p, flag) and the gufunc wrappers."""
    n, entry = cfg["n"], cfg["entry"]
    xs, assume = symbolic_series(n)
    it = mk_interp("poly")
    st = State()
    arr = it.new_array(st, (n,), "int16", cells=list(xs))
    A = it.A
    if entry == "1d":
        tau, p, slope, trend = it.call_function(st, it.get_function(MOD, "mann_kendall_trend_1d"), [arr])
        written = [True] * 4
    else:
        fn = it.get_function(MOD, "_mann_kendall_trend_gu" if entry == "gu" else "_mann_kendall_trend_gu_nd")
        sigs, layout, n_in = gufunc_signatures(fn)
        outs = [C.make_out(it, st, (1,), dt, f"o{k}") for k, (dt, nd) in enumerate(sigs[0][n_in:])]
        nd = z3.Int("nodata")
        assume = assume + [nd >= -32768, nd <= 32767] + ([z3.Or(*[x != nd for x in xs])] if cfg.get("some_valid", True) else [x == nd for x in xs])
        args = [arr] + ([z3.ToReal(nd)] if entry == "gu_nd" else []) + outs
        it.call_function(st, fn, args)
        vals = [C.out_values(it, st, o) for o in outs]
        (tau, p, slope, trend) = [v[0][0] for v in vals]
        written = [v[1][0] for v in vals]
    w.res.encoded.update(it.encoded)
    conc = conc_of(xs, entry)
    if entry == "gu_nd":
        nd = z3.Int("nodata")
        conc = lambda m: {"kind": entry, "data": [C.model_value(m, x) for x in xs], "nodata": C.model_value(m, nd)}  # noqa: E731
    lem = list(A.lemmas)
    for k, wr in enumerate(written):
        w.discharge(f"{entry}.output_written[{k}]", assume, wr, lemmas=lem, concretize=conc)
    if entry == "gu_nd" and not cfg.get("some_valid", True):
        nd = z3.Int("nodata")
        claim = z3.And(V.to_real(tau) == z3.ToReal(nd), V.to_real(p) == z3.ToReal(nd), V.to_real(slope) == z3.ToReal(nd), V.to_z3(trend) == -2)
        w.discharge("gu_nd.all_nodata_pixel", assume, claim, lemmas=lem, concretize=conc)
        return
    # definition, built with the same uninterpreted sqrt / division / erf / ndtri symbols
    S = spec_S(xs)
    var = spec_var(xs)
    sq = A.sqrt(var)
    zs = z3.If(S > 0, V.to_real(A.div(z3.ToReal(S - 1), sq)), z3.If(S < 0, V.to_real(A.div(z3.ToReal(S + 1), sq)), z3.RealVal(0)))
    absz = z3.If(zs >= 0, zs, -zs)
    erf = A.erf(A.mul(absz, A.sqrt(Fraction(1, 2))))
    pspec = 2 * (1 - (Fraction(1, 2) * (1 + V.to_real(erf))))
    zc = it.A.uf("sc_ndtri", 1)(V.to_real(1 - Fraction("0.05") / 2))
    flag = z3.If(absz > zc, z3.If(zs > 0, 1, z3.If(zs < 0, -1, 0)), 0)
    lem = list(A.lemmas)
    w.discharge(f"{entry}.tau", assume, V.to_real(tau) == z3.ToReal(S) / Fraction(n * (n - 1), 2), lemmas=lem, concretize=conc)
    w.discharge(f"{entry}.p_value", assume, V.to_real(p) == pspec, lemmas=lem, concretize=conc, sample=True)
    w.discharge(f"{entry}.trend_flag", assume, V.to_z3(trend) == flag, lemmas=lem, concretize=conc)
    # Sen's slope of the composition: median of the pairwise slopes (declaratively, as in w_parts)
    ds = [(z3.ToReal(xs[j] - xs[i])) / (j - i) for i in range(n - 1) for j in range(i + 1, n)]
    N = len(ds)
    m_ = V.to_real(slope)
    if N % 2 == 1:
        below = z3.Sum([z3.If(d < m_, 1, 0) for d in ds])
        above = z3.Sum([z3.If(d > m_, 1, 0) for d in ds])
        sclaim = z3.And(z3.Or(*[d == m_ for d in ds]), 2 * below <= N - 1, 2 * above <= N - 1)
        slem = lem
    else:
        a_, b_ = z3.Real("cmed_lo"), z3.Real("cmed_hi")

        def ostat(v, k):
            lt = z3.Sum([z3.If(d < v, 1, 0) for d in ds])
            le = z3.Sum([z3.If(d <= v, 1, 0) for d in ds])
            return z3.And(z3.Or(*[d == v for d in ds]), lt < k, k <= le)
        slem = lem + [ostat(a_, N // 2), ostat(b_, N // 2 + 1)]
        sclaim = m_ == (a_ + b_) / 2
    if entry == "1d":
        w.discharge(f"{entry}.sens_slope", assume, sclaim, lemmas=slem, concretize=conc)
    for ob in it.obligations:
        if ob.kind in ("zero-division", "sqrt-domain"):
            # variance is positive for n >= 2 unless all values are equal (then S = 0 and Z = 0 is returned before dividing)
            continue
        w.discharge(f"{entry}.{ob.kind}@{ob.where}", assume, ob.claim, guard=ob.guard, lemmas=lem, concretize=conc)


class _DA:
    """DataArray contract for PixelAlgorithms.mktrend: only .attrs is read by the accessor."""

    def __init__(self, attrs):
        self.attrs = attrs

    def pysym_getattr(self, it, st, attr):
        if attr == "attrs":
            return self.attrs
        raise Unsupported(f"DataArray.{attr}")


class _Out:
    def __init__(self, name=None):
        self.name = name
        self.attrs = {}

    def pysym_getattr(self, it, st, attr):
        from pysym.lib import native
        if attr == "to_dataset":
            return native(lambda it_, st_, name=None, **kw: _Out(name))
        if attr == "attrs":
            return self.attrs
        if attr in ("tau", "pvalue", "slope", "trend"):
            return self.__dict__.setdefault("_" + attr, _Out(attr))
        raise Unsupported(f"result.{attr}")


def w_accessor(w, cfg):
    """mktrend dispatch: a declared nodata value (ANY value, 0 included) selects the nodata-aware kernel and is handed to it; without a
    declared value the plain kernel runs on the array alone; the core dimension is time; the trend flag's nodata is -2."""
    from pysym.interp import Instance
    from pysym.lib import native
    nd = cfg["nodata"]
    it = C.new_interp(policy="exact")
    cls = it.get_function("hdc.algo.accessors", "PixelAlgorithms")
    cls.link_bases(it)
    inst = Instance(cls)
    da = _DA({} if nd is None else {"nodata": nd})
    inst.fields["_obj"] = da
    calls = []

    @native
    def apply_ufunc(it_, st_, func, *args, **kw):
        calls.append((func, args, kw))
        return tuple(_Out() for _ in range(4))
    it.lib_overrides["xarray.apply_ufunc"] = apply_ufunc
    it.lib_overrides["xarray.merge"] = native(lambda it_, st_, objs, **kw: _Out("merged"))
    it.lib_overrides["warnings.warn"] = native(lambda it_, st_, *a, **k: None)
    st = State()
    res = it.call_function(st, cls.methods["mktrend"], [inst])
    w.res.encoded.update(it.encoded)

    def conc(m):
        return {"kind": "accessor", "data": None, "nodata": nd}
    ok = len(calls) == 1
    if ok:
        func, args, kw = calls[0]
        fname = getattr(func, "name", None) or getattr(getattr(func, "node", None), "name", None)
        icd = [list(x) for x in (kw.get("input_core_dims") or [])]
        if nd is None:
            ok = fname == "_mann_kendall_trend_gu" and len(args) == 1 and args[0] is da and icd == [["time"]]
        else:
            ok = fname == "_mann_kendall_trend_gu_nd" and len(args) == 2 and args[0] is da and args[1] == nd and icd == [["time"], []]
        ok = ok and [list(x) for x in kw.get("output_core_dims", [])] == [[], [], [], []] \
            and list(kw.get("output_dtypes", [])) == ["float32", "float32", "float32", "int8"]
    w.discharge(f"mktrend.dispatch[nodata={nd}]", [], z3.BoolVal(bool(ok)), concretize=conc)
    tr = res.pysym_getattr(it, st, "trend") if isinstance(res, _Out) else None
    w.discharge(f"mktrend.trend_flag_nodata_is_minus_2[nodata={nd}]", [], z3.BoolVal(tr is not None and tr.attrs.get("nodata") == -2), concretize=conc)


def worker(w, cfg):
    {"parts": w_parts, "trend": w_trend, "accessor": w_accessor}[cfg["kind"]](w, cfg)


def configs(tier):
    cf = []
    nmax = 6 if tier == "quick" else 7
    for n in range(2, nmax + 1):
        cf.append({"kind": "parts", "n": n})
    tmax = 4 if tier == "quick" else 6
    for n in range(2, tmax + 1):
        cf.append({"kind": "trend", "n": n, "entry": "1d"})
    for n in (2, 3, 4):
        cf.append({"kind": "trend", "n": n, "entry": "gu"})
        cf.append({"kind": "trend", "n": n, "entry": "gu_nd", "some_valid": True})
        cf.append({"kind": "trend", "n": n, "entry": "gu_nd", "some_valid": False})
    for nd in (None, 0, -9999, 1, 255, -1):
        cf.append({"kind": "accessor", "nodata": nd})
    return cf


def validate(chk, seed):
    import random
    rnd = random.Random(seed)
    ts = [0.7, 0.4, 0.9, 0.3, 0.6, 0.1, 0.95, 0.2, 0.5, 0.8]
    cases = [[int(v * 100) for v in ts]]
    for _ in range(20):
        n = rnd.randint(2, 9)
        cases.append([rnd.randint(-5, 5) for _ in range(n)])
    for data in cases:
        it = C.new_interp(concrete=True)
        st = State()
        a = it.new_array(st, (len(data),), "int16", cells=list(data))
        mine = list(it.call_function(st, it.get_function(MOD, "mann_kendall_trend_1d"), [a]))
        real = chk.replayer.call("call", fn=f"{MOD}:mann_kendall_trend_1d", args=[{"nd": data, "dtype": "int16"}])["value"]
        chk.validate("mann_kendall_trend_1d", mine, real, tol=1e-9)


_BOUNDARY = {}


def replay_candidate(chk, c):
    r = chk.replayer.call("c10_mk", **c["input"])
    if not r["violates"] and any(k in c.get("obligation", "") for k in ("trend_flag", "p_value")):
        # the model's Z is a real number between the exact critical value and what the code compares with; integer series that
        # realise such a Z are rare - the replayer runs its ladder of series closest to the 5 % boundary (both sides) once
        if "r" not in _BOUNDARY:
            _BOUNDARY["r"] = chk.replayer.call("c10_mk", kind="boundary", data=None)
        if _BOUNDARY["r"]["violates"]:
            r = dict(_BOUNDARY["r"], via="boundary ladder shaped after the candidate")
    return bool(r["violates"]), r


def main(tier, seed, nproc=None):
    chk = C.Check(PID, tier, seed)
    chk.assumptions = ["values are int16 integers with arbitrary ties (one query covers every rank pattern of that length)",
                       "sqrt, erf, the quotient (S-+1)/sqrt(Var) and ndtri(0.975) are uninterpreted symbols shared by kernel and definition "
                       "(1.9599 < ndtri(0.975) < 1.96); p < 0.05 <=> |Z| > ndtri(0.975) is assumed (numerics of erf / ndtri)",
                       "np.unique / np.nanmedian via order statistics (fresh variables with defining constraints)"]
    chk.bounds = {"n": f"2..{6 if tier == 'quick' else 7} (S, tau, variance, Sen slope); 2..{4 if tier == 'quick' else 6} (composition); gufunc wrappers n <= 4"}
    chk.outside = ["series longer than the bound", "float32 rounding of the stored outputs", "erf / ndtri numerics",
                   "invariance under monotone maps / negation / reversal (corollaries of the definitional equalities)"]
    validate(chk, seed)
    chk.run(worker, configs(tier), nproc)
    chk.confirm(lambda c: replay_candidate(chk, c))
    return chk.finish(
        rule="per series length: one query per definitional equality (S, tau, variance, slope, p, flag, outputs written); "
             "non-trivial = >= 1 free variable; distinct by goal hash",
        explanation="mk_* functions executed symbolically on series with arbitrary ties; z3 (LIA + UF) decides equality with the "
                    "pairwise / tie-group / median definitions")


def replay(path):
    chk = C.Check(PID, "quick", 0)
    c = json.load(open(path))
    ok, detail = replay_candidate(chk, c)
    chk.replayer.close()
    print(json.dumps(detail, default=str)[:2000])
    if ok:
        print(f"VIOLATION property={PID} replay={path}")
        return 1
    return 0
