"""C11 - dekads partition the calendar and behave as an ordered integer line (DESIGN 5, C11).

hdc/algo/dekad.py is executed symbolically (class, properties, dunder methods) with years, months, days, raw integers and offsets
as z3 integers over their FULL ranges (years 1..9999) - no enumeration. `datetime` / `timedelta` are replaced by a proleptic
Gregorian model in microseconds (validated against CPython in translator validation).
"""
import json

import z3

from . import common as C
from pysym import vals as V
from pysym.interp import State, Instance, LibRef
from pysym.lib import native, NativeBound, SymStr, PyType
from pysym.vals import Unsupported, z_and, z_or, z_not

PID = "C11"
US_DAY = 86400 * 10**6
CUM = [0, 31, 59, 90, 120, 151, 181, 212, 243, 273, 304, 334]   # days before month (non-leap)
DIM = [31, 28, 31, 30, 31, 30, 31, 31, 30, 31, 30, 31]


def is_leap(y):
    return z3.And(y % 4 == 0, z3.Or(y % 100 != 0, y % 400 == 0))


def days_in_month(y, m):
    r = z3.IntVal(31)
    for k in range(12, 0, -1):
        d = DIM[k - 1]
        r = z3.If(m == k, (z3.If(is_leap(y), 29, 28) if k == 2 else z3.IntVal(d)), r)
    return r


def ordinal(y, m, d):
    """days since 0001-01-01 (0-based)."""
    y1 = y - 1
    before_year = 365 * y1 + y1 / 4 - y1 / 100 + y1 / 400
    bm = z3.IntVal(0)
    for k in range(12, 0, -1):
        bm = z3.If(m == k, CUM[k - 1] + (z3.If(is_leap(y), 1, 0) if k > 2 else 0), bm)
    return before_year + bm + (d - 1)


def valid_date(y, m, d):
    return z3.And(y >= 1, y <= 9999, m >= 1, m <= 12, d >= 1, d <= days_in_month(y, m))


class DT:
    """datetime / date value: calendar fields (terms) or a total in microseconds."""

    def __init__(self, y=None, m=None, d=None, h=0, mi=0, s=0, us=0, total=None, is_datetime=True):
        self.y, self.m, self.d, self.h, self.mi, self.s, self.us = y, m, d, h, mi, s, us
        self._total = total
        self.is_datetime = is_datetime

    def total(self):
        if self._total is not None:
            return self._total
        t = ordinal(V.to_z3(self.y), V.to_z3(self.m), V.to_z3(self.d)) * US_DAY
        return t + ((V.to_z3(self.h) * 60 + V.to_z3(self.mi)) * 60 + V.to_z3(self.s)) * 10**6 + V.to_z3(self.us)

    def pysym_isinstance(self, t):
        if isinstance(t, LibRef):
            if t.name == "datetime.datetime":
                return self.is_datetime
            return t.name == "datetime.date"
        return False

    def pysym_getattr(self, it, st, attr):
        if attr in ("year", "month", "day"):
            v = {"year": self.y, "month": self.m, "day": self.d}[attr]
            if v is None:
                raise Unsupported("calendar fields of a datetime known only by its instant")
            return v
        raise Unsupported(f"datetime.{attr}")

    def pysym_format(self, it, st, spec):
        """strftime-style formatting as glibc does it: %Y is NOT zero padded, %m / %d are two digits."""
        import re
        parts = []
        for tok in re.findall(r"%.|[^%]+", spec):
            if tok == "%Y":
                parts.append(("int", self.y, "nopad4"))
            elif tok == "%m":
                parts.append(("int", self.m, "02d"))
            elif tok == "%d":
                parts.append(("int", self.d, "02d"))
            elif tok.startswith("%"):
                raise Unsupported(f"strftime directive {tok}")
            else:
                parts.append(("lit", tok))
        return SymStr(parts)

    def pysym_binop(self, it, st, name, other, swapped):
        if name == "Sub" and not swapped:
            if isinstance(other, TD):
                return DT(total=self.total() - other.us, is_datetime=self.is_datetime)
            if isinstance(other, DT):
                return TD(self.total() - other.total())
        if name == "Add" and isinstance(other, TD):
            return DT(total=self.total() + other.us, is_datetime=self.is_datetime)
        raise Unsupported(f"datetime {name}")

    def pysym_compare(self, it, st, sym, other, swapped):
        if not isinstance(other, DT):
            raise Unsupported("datetime compared with non-datetime")
        a, b = (other.total(), self.total()) if swapped else (self.total(), other.total())
        return it.A.cmp(sym, a, b)


class TD:
    def __init__(self, us):
        self.us = us

    def pysym_getattr(self, it, st, attr):
        if attr == "days":
            return V.to_z3(self.us) / US_DAY
        raise Unsupported(f"timedelta.{attr}")

    def pysym_binop(self, it, st, name, other, swapped):
        if name == "Mult" and not isinstance(other, (TD, DT)):
            return TD(self.us * V.to_z3(other))
        if isinstance(other, TD) and name in ("Add", "Sub"):
            return TD(self.us + other.us if name == "Add" else ((other.us - self.us) if swapped else (self.us - other.us)))
        if isinstance(other, DT) and name == "Add":
            return DT(total=other.total() + self.us)
        raise Unsupported(f"timedelta {name}")


def install(it):
    @native
    def mk_datetime(it_, st_, y, m, d, h=0, mi=0, s=0, us=0):
        ok = valid_date(V.to_z3(y), V.to_z3(m), V.to_z3(d))
        okd = it_.decide(st_, ok)
        if okd is not True:
            it_.raise_exc(st_, z_not(ok), "ValueError", "date out of range")
        return DT(y, m, d, h, mi, s, us)

    @native
    def mk_timedelta(it_, st_, days=0, seconds=0, microseconds=0, **kw):
        return TD(V.to_z3(days) * US_DAY + V.to_z3(seconds) * 10**6 + V.to_z3(microseconds))
    it.lib_overrides["datetime.datetime"] = mk_datetime
    it.lib_overrides["datetime.date"] = mk_datetime
    it.lib_overrides["datetime.timedelta"] = mk_timedelta


def symstr_eq(a, b):
    """Equality of two strings built from literal pieces and fixed-width formatted integers (same layout piece by piece)."""
    if len(a.parts) != len(b.parts):
        return z3.BoolVal(False)
    conj = []
    for pa, pb in zip(a.parts, b.parts):
        if pa[0] != pb[0]:
            return z3.BoolVal(False)
        if pa[0] == "lit":
            if pa[1] != pb[1]:
                return z3.BoolVal(False)
        else:
            if pa[2] != pb[2]:
                return z3.BoolVal(False)
            conj.append(V.to_z3(pa[1]) == V.to_z3(pb[1]))
    return z3.And(*conj) if conj else z3.BoolVal(True)


def new_dekad(it, st, arg):
    cls = it.get_function("hdc.algo.dekad", "Dekad")
    return it.instantiate(st, cls, [arg], {})


def attr(it, st, obj, name):
    return it.getattr(st, obj, name)


def exc_cond(st):
    return z_or(*[g for g, k, m in st.exc_list])


def worker(w, cfg):
    kind = cfg["kind"]
    it = C.new_interp(policy="poly")
    it.prune_mode = "facts"
    install(it)
    st = State()
    y, m, d = z3.Int("y"), z3.Int("m"), z3.Int("d")
    h, mi, s, us = z3.Int("h"), z3.Int("mi"), z3.Int("s"), z3.Int("us")
    date_ok = valid_date(y, m, d)
    time_ok = z3.And(h >= 0, h <= 23, mi >= 0, mi <= 59, s >= 0, s <= 59, us >= 0, us <= 999999)
    raw = z3.Int("raw")
    raw_ok = z3.And(raw >= 36, raw <= 36 * 9999 + 35)
    n = z3.Int("n")

    def conc(mo):
        return {"kind": kind, "y": C.model_value(mo, y), "m": C.model_value(mo, m), "d": C.model_value(mo, d), "h": C.model_value(mo, h),
                "mi": C.model_value(mo, mi), "s": C.model_value(mo, s), "us": C.model_value(mo, us), "raw": C.model_value(mo, raw),
                "n": C.model_value(mo, n), "raw2": C.model_value(mo, z3.Int("raw2"))}
    if kind == "from_date":
        assume = [date_ok, time_ok]
        it.assume(*assume)
        D = new_dekad(it, st, DT(y, m, d, h, mi, s, us))
        idx_spec = z3.If(d <= 10, 1, z3.If(d <= 20, 2, 3))
        r = V.to_z3(attr(it, st, D, "raw"))
        w.discharge("from_date.raw", assume, r == 36 * y + 3 * (m - 1) + (idx_spec - 1), concretize=conc, sample=True)
        w.discharge("from_date.year_month_idx", assume, z3.And(V.to_z3(attr(it, st, D, "year")) == y, V.to_z3(attr(it, st, D, "month")) == m,
                                                               V.to_z3(attr(it, st, D, "idx")) == idx_spec), concretize=conc)
        w.discharge("from_date.yidx", assume, V.to_z3(attr(it, st, D, "yidx")) == 3 * (m - 1) + idx_spec, concretize=conc)
        inst = DT(y, m, d, h, mi, s, us)
        sd = attr(it, st, D, "start_date")
        w.discharge("from_date.start_le_instant", assume, V.to_z3(it.A.cmp("<=", sd.total(), inst.total())), concretize=conc)
        # containment: start <= instant <= end (end_date does not exist for the very last dekad of year 9999)
        not_last = z3.Not(z3.And(y == 9999, m == 12, d >= 21))
        st2 = State()
        D2 = new_dekad(it, st2, DT(y, m, d, h, mi, s, us))
        ed = attr(it, st2, D2, "end_date")
        w.discharge("from_date.instant_le_end", assume + [not_last], V.to_z3(it.A.cmp("<=", inst.total(), ed.total())), concretize=conc)
        w.discharge("from_date.no_exception", assume + [not_last], z_not(exc_cond(st2)), concretize=conc)
        # the date-only constructor agrees
        st3 = State()
        D3 = new_dekad(it, st3, DT(y, m, d, is_datetime=False))
        w.discharge("from_date.date_equals_datetime", assume, V.to_z3(attr(it, st3, D3, "raw")) == r, concretize=conc)
    elif kind == "from_raw":
        assume = [raw_ok]
        it.assume(*assume)
        D = new_dekad(it, st, raw)
        yy, mm, ii = (V.to_z3(attr(it, st, D, k)) for k in ("year", "month", "idx"))
        dd = V.to_z3(attr(it, st, D, "day"))
        w.discharge("from_raw.fields_in_range", assume, z3.And(yy >= 1, yy <= 9999, mm >= 1, mm <= 12, ii >= 1, ii <= 3, dd == 1 + 10 * (ii - 1)),
                    concretize=conc)
        w.discharge("from_raw.raw_roundtrip", assume, 36 * yy + 3 * (mm - 1) + (ii - 1) == raw, concretize=conc, sample=True)
        # start date -> dekad round trip
        st2 = State()
        sd = attr(it, st2, D, "start_date")
        D2 = new_dekad(it, st2, sd)
        w.discharge("from_raw.start_date_roundtrip", assume, V.to_z3(attr(it, st2, D2, "raw")) == raw, concretize=conc)
        w.discharge("from_raw.start_date_valid", assume, z_not(exc_cond(st2)), concretize=conc)
        # label round trip
        st3 = State()
        label = it.call(st3, it.lib.BUILTINS["str"], [D], {})
        n_ob = len(it.obligations)
        D3 = new_dekad(it, st3, label)
        w.discharge("from_raw.label_roundtrip", assume, V.to_z3(attr(it, st3, D3, "raw")) == raw, concretize=conc)
        w.discharge("from_raw.label_parses", assume, z_not(exc_cond(st3)), concretize=conc)
        for ob in it.obligations:
            if ob.kind == "label-layout":
                w.discharge("from_raw.label_fixed_width_YYYYMMdK", assume, ob.claim, guard=ob.guard, concretize=conc)
        if isinstance(label, SymStr):
            shape = [(p[0], p[2] if p[0] == "int" else p[1]) for p in label.parts]
            okshape = [k for k, _ in shape] == ["int", "int", "lit", "int"] and shape[2][1] == "d"
            w.discharge("from_raw.label_shape", [], z3.BoolVal(okshape), concretize=conc)
        # ndays and abutment (not for the very last dekad)
        not_last = raw < 36 * 9999 + 35
        st4 = State()
        nd = attr(it, st4, D, "ndays")
        dim = days_in_month(yy, mm)
        w.discharge("from_raw.ndays", assume + [not_last], V.to_z3(nd) == z3.If(ii < 3, 10, dim - 20), concretize=conc)
        st5 = State()
        ed = attr(it, st5, D, "end_date")
        nxt = it.binop(st5, __import__("ast").Add(), D, 1)
        ns = attr(it, st5, nxt, "start_date")
        w.discharge("from_raw.abutment_end_plus_1us_is_next_start", assume + [not_last], ed.total() + 1 == ns.total(), concretize=conc)
        # end of dekad is the last microsecond of day 10 / 20 / last day of the month
        last_day = z3.If(ii == 1, 10, z3.If(ii == 2, 20, dim))
        w.discharge("from_raw.end_is_last_microsecond_of_last_day", assume + [not_last],
                    ed.total() == ordinal(yy, mm, last_day) * US_DAY + US_DAY - 1, concretize=conc)
    elif kind == "arith":
        raw2 = z3.Int("raw2")
        assume = [raw_ok, z3.And(raw2 >= 36, raw2 <= 36 * 9999 + 35), raw + n >= 36, raw + n <= 36 * 9999 + 35, raw - n >= 36, raw - n <= 36 * 9999 + 35]
        it.assume(*assume)
        import ast
        D = new_dekad(it, st, raw)
        E = new_dekad(it, st, raw2)
        dn = it.binop(st, ast.Add(), D, n)
        w.discharge("arith.add_then_sub_dekad", assume, V.to_z3(it.binop(st, ast.Sub(), dn, D)) == n, concretize=conc, sample=True)
        back = it.binop(st, ast.Sub(), dn, n)
        w.discharge("arith.add_then_sub_int", assume, V.to_z3(it.compare(st, ast.Eq(), back, D)), concretize=conc)
        nd = it.binop(st, ast.Add(), n, D)
        w.discharge("arith.radd", assume, V.to_z3(it.compare(st, ast.Eq(), nd, dn)), concretize=conc)
        w.discharge("arith.difference", assume, V.to_z3(it.binop(st, ast.Sub(), E, D)) == raw2 - raw, concretize=conc)
        for opn, sym in (("Lt", "<"), ("LtE", "<="), ("Gt", ">"), ("GtE", ">="), ("Eq", "=="), ("NotEq", "!=")):
            got = it.compare(st, getattr(ast, opn)(), D, E)
            w.discharge(f"arith.order_{opn}", assume, V.to_z3(got) == V.to_z3(it.A.cmp(sym, raw, raw2)), concretize=conc)
        # comparing two dekads of the supported range never raises (e.g. by materialising a date outside 0001..9999)
        w.discharge("arith.comparisons_raise_nothing", assume, z_not(exc_cond(st)), concretize=conc)
        h1 = it.call(st, it.lib.BUILTINS["hash"], [D], {})
        h2 = it.call(st, it.lib.BUILTINS["hash"], [E], {})
        w.discharge("arith.equal_dekads_hash_equally", assume + [raw == raw2], V.to_z3(it.compare(st, ast.Eq(), h1, h2)), concretize=conc)
        # chronological order: start dates ordered like the raw integers
        s1, s2 = attr(it, st, D, "start_date"), attr(it, st, E, "start_date")
        w.discharge("arith.order_is_chronological", assume, (raw < raw2) == V.to_z3(it.A.cmp("<", s1.total(), s2.total())), concretize=conc)
        # comparison with a raw int / with another type
        w.discharge("arith.eq_with_int", assume, V.to_z3(it.compare(st, ast.Eq(), D, raw2)) == (raw == raw2), concretize=conc)
    elif kind == "accessor":
        from . import xr_stubs as X
        assume = [date_ok, time_ok]
        it.assume(*assume)
        cls = it.get_function("hdc.algo.accessors", "DekadPeriod")
        cls.link_bases(it)
        inst = Instance(cls)

        def elem_binop(it_, st_, name, x, o, swapped=False):
            if hasattr(x, "pysym_binop"):
                return x.pysym_binop(it_, st_, name, o, swapped)
            if hasattr(o, "pysym_binop"):
                return o.pysym_binop(it_, st_, name, x, not swapped)
            return it_.scalar_binop(st_, name, o, x) if swapped else it_.scalar_binop(st_, name, x, o)

        class Series:
            """pandas Series of time stamps / derived values: element-wise apply, arithmetic with scalars and other series, .dt fields."""

            def __init__(self, items):
                self.items = items

            def pysym_getattr(self, it_, st_, a):
                if a == "apply":
                    return NativeBound(lambda it2, st2, selfv, f: Series([it2.call(st2, f, [x], {}) for x in self.items]), self)
                if a == "to_xarray":
                    return NativeBound(lambda it2, st2, selfv: self, self)
                if a == "dt":
                    return DtFields(self)
                if a in ("astype", "values"):
                    raise Unsupported(f"Series.{a}")
                raise Unsupported(a)

            def pysym_binop(self, it_, st_, name, other, swapped):
                if isinstance(other, Series):
                    return Series([elem_binop(it_, st_, name, x, o, swapped) for x, o in zip(self.items, other.items)])
                return Series([elem_binop(it_, st_, name, x, other, swapped) for x in self.items])

        class DtFields:
            def __init__(self, ser):
                self.ser = ser

            def pysym_getattr(self, it_, st_, a):
                if a in ("year", "month", "day"):
                    return Series([x.pysym_getattr(it_, st_, a) for x in self.ser.items])
                if a in ("hour", "minute", "second", "microsecond"):
                    return Series([{"hour": x.h, "minute": x.mi, "second": x.s, "microsecond": x.us}[a] for x in self.ser.items])
                if a in ("floor", "normalize"):
                    return NativeBound(lambda it2, st2, selfv, *args: Series([DT(x.y, x.m, x.d) for x in self.ser.items]), self)
                raise Unsupported(f"Series.dt.{a}")

        def np_minmax(which):
            @native
            def f(it_, st_, a, b, **kw):
                if isinstance(a, Series) or isinstance(b, Series):
                    ser, o, = (a, b) if isinstance(a, Series) else (b, a)
                    op = it_.A.minimum if which == "min" else it_.A.maximum
                    if isinstance(o, Series):
                        return Series([op(x, y) for x, y in zip(ser.items, o.items)])
                    return Series([op(x, o) for x in ser.items])
                return it_.lib.LIB["numpy.minimum" if which == "min" else "numpy.maximum"](it_, st_, a, b)
            return f
        it.lib_overrides["numpy.minimum"] = np_minmax("min")
        it.lib_overrides["numpy.maximum"] = np_minmax("max")

        @native
        def timedelta64(it_, st_, nval=1, unit="D"):
            per = {"D": US_DAY, "h": 3600 * 10**6, "m": 60 * 10**6, "s": 10**6, "ms": 1000, "us": 1}.get(unit)
            if per is None:
                raise Unsupported(f"timedelta64 unit {unit}")
            return TD(V.to_z3(nval) * per)
        it.lib_overrides["numpy.timedelta64"] = timedelta64
        it.lib_overrides["pandas.Timedelta"] = native(lambda it_, st_, value=1, unit="D", **kw: timedelta64(it_, st_, value, unit))

        class TimeAcc:
            def pysym_getattr(self, it_, st_, a):
                if a == "to_series":
                    return NativeBound(lambda it2, st2, selfv: Series([DT(y, m, d, h, mi, s, us)]), self)
                if a == "dt":
                    return DtFields(Series([DT(y, m, d, h, mi, s, us)]))
                raise Unsupported(a)

        class Obj:
            def pysym_getattr(self, it_, st_, a):
                if a == "time":
                    return TimeAcc()
                raise Unsupported(a)
        inst.fields["_obj"] = Obj()
        D = new_dekad(it, State(), DT(y, m, d, h, mi, s, us))
        not_last = z3.Not(z3.And(y == 9999, m == 12, d >= 21))
        for a in ("idx", "yidx", "raw", "linspace", "ndays", "start_date", "end_date", "label", "year", "month"):
            extra = [not_last] if a in ("ndays", "end_date") else []
            sta = State()
            got = it.getattr(sta, inst, a).items[0]
            stb = State()
            if a in ("year", "month"):
                ref = {"year": y, "month": m}[a]
            elif a == "linspace":
                ref = V.to_z3(attr(it, stb, D, "yidx")) - 1
            elif a == "label":
                ref = it.call(stb, it.lib.BUILTINS["str"], [D], {})
            else:
                ref = attr(it, stb, D, a)
            if isinstance(ref, DT):
                claim = V.to_z3(it.A.cmp("==", got.total(), ref.total())) if isinstance(got, DT) else z3.BoolVal(False)
            elif isinstance(ref, SymStr):
                claim = symstr_eq(got, ref) if isinstance(got, SymStr) else z3.BoolVal(False)
            else:
                claim = V.to_z3(got) == V.to_z3(ref)
            w.discharge(f"accessor.{a}_elementwise", assume + extra, claim, concretize=conc)
            w.discharge(f"accessor.{a}_raises_nothing", assume + extra, z_not(exc_cond(sta)), concretize=conc)
    w.res.encoded.update(it.encoded)
    w.vacuity(f"{kind}.assumptions", assume)


def configs(tier):
    return [{"kind": k} for k in ("from_date", "from_raw", "arith", "accessor")]


def validate(chk, seed):
    """Calendar model vs CPython's datetime on month ends of leap / non-leap / century / 400-year years."""
    for yy in (1, 4, 100, 400, 1900, 2000, 2023, 2024, 9999):
        for mm in range(1, 13):
            r = chk.replayer.call("c11_calendar", y=yy, m=mm)
            s = z3.Solver()
            s.add(z3.Int("Y") == yy, z3.Int("M") == mm)
            s.check()
            mo = s.model()
            dim = C.model_value(mo, mo.eval(days_in_month(z3.IntVal(yy), z3.IntVal(mm))))
            ordv = C.model_value(mo, mo.eval(ordinal(z3.IntVal(yy), z3.IntVal(mm), z3.IntVal(1))))
            chk.validate("calendar model (days in month, ordinal)", [dim, ordv], [r["dim"], r["ordinal"]])


def replay_candidate(chk, c):
    r = chk.replayer.call("c11_dekad", **c["input"])
    return bool(r["violates"]), r


def main(tier, seed, nproc=None):
    chk = C.Check(PID, tier, seed)
    chk.assumptions = ["datetime / date / timedelta replaced by a proleptic-Gregorian microsecond model (validated against CPython)",
                       "years 1..9999, every month / day / time of day, raw integers 36..359999, offsets keeping the year in 1..9999 - all symbolic, no enumeration",
                       "the label is modelled as fixed-width fields 'YYYY' 'MM' 'd' 'K'; formatting that is not fixed width is itself an obligation"]
    chk.bounds = {"dates": "0001-01-01 .. 9999-12-31 (symbolic)", "dekads": "0001-01-d1 .. 9999-12-d3 (symbolic)", "end_date of the very last dekad": "outside (as in the property)"}
    chk.outside = ["the pandas Series.apply machinery of the accessor beyond element-wise application", "string inputs that are not produced by str(Dekad)"]
    validate(chk, seed)
    chk.run(worker, configs(tier), nproc)
    chk.confirm(lambda c: replay_candidate(chk, c))
    return chk.finish(
        rule="one query per clause (construction, fields, containment, abutment, ndays, round trips, ordering, hash, arithmetic, accessor); "
             "non-trivial = >= 1 free variable; distinct by goal hash",
        explanation="dekad.py executed symbolically with z3 integers over the full calendar range; datetime arithmetic through a validated "
                    "ordinal model")


def replay(path):
    chk = C.Check(PID, "quick", 0)
    c = json.load(open(path))
    ok, detail = replay_candidate(chk, c)
    chk.replayer.close()
    print(json.dumps(detail, default=str)[:2000])
    if ok:
        print(f"VIOLATION property={PID} replay={path}")
        return 1
    return 0
