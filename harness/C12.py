"""C12 - results do not depend on layout / neighbours / iteration order / thread count (the part that is Python source).

What is decided here (DESIGN 5, C12): for the explicit pixel-loop drivers (`ws2doptvplc_tyx` with its numba.prange,
`autocorr`, `autocorr_tyx`, `gammastd_yxt`, `mann_kendall_trend_yxt`) executed symbolically on a cube of symbolic pixels, with the
per-pixel kernels replaced by uninterpreted functions of their arguments:

* locality / permutation equivariance - the result of a pixel in the joint run equals the result of the same driver on
  that pixel alone (a 1x1 cube), for every position of the pixel;
* per-pixel specification - the result equals the documented per-pixel composition of the kernels;
* prange: no name is carried into an iteration, no buffer that exists before the loop is written by one iteration and
  touched by another (data-race freedom => the result is the same for every thread count / schedule), and the loop
  executed in reverse order produces the same terms;
* lazy compilation wrapper: the real `lazycompile` source is split into its atomic reads / writes of the shared closure
  cell and N threads are interleaved by a symbolic schedule (z3 integers): every call goes to a compiled function;
* accessor glue: `autocorr` dispatch on the position of the time dimension / chunked time axis, over xarray contracts.

Outside (stated in the evidence): dask graph execution, apply_ufunc, Numba's threading layer and compile lock.
"""
import ast
import itertools
import json
import os

import z3

from . import common as C
from . import smooth as S
from pysym import vals as V
from pysym.interp import State
from pysym.vals import Unsupported, z_and, z_not, z_or

PID = "C12"


# ---------------------------------------------------------------- uninterpreted per-pixel kernels
def _reals(vals):
    return [V.to_real(V.num_of_bool(v)) for v in vals]


def _flat_args(interp, st, args):
    out = []
    for a in args:
        if a is None:
            out.append(z3.RealVal(-1234567))
        elif hasattr(a, "bufid"):
            out.extend(_reals(interp.arr_values(st, a)))
        else:
            out.append(V.to_real(V.num_of_bool(a)))
    return out


def uf_scalar(tag):
    def f(interp, st, args, kwargs):
        t = _flat_args(interp, st, list(args) + [kwargs[k] for k in sorted(kwargs)])
        return interp.A.uf(f"{tag}{len(t)}", len(t))(*t)
    return f


def uf_tuple(tag, kinds):
    def f(interp, st, args, kwargs):
        t = _flat_args(interp, st, list(args) + [kwargs[k] for k in sorted(kwargs)])
        out = []
        for i, k in enumerate(kinds):
            v = interp.A.uf(f"{tag}{len(t)}_{i}", len(t))(*t)
            out.append(v > 0 if k == "bool" else v)
        return tuple(out)
    return f


def uf_array(tag, dtype="float64"):
    def f(interp, st, args, kwargs):
        t = _flat_args(interp, st, list(args) + [kwargs[k] for k in sorted(kwargs)])
        n = args[0].shape[0]
        cells = [interp.A.uf(f"{tag}{len(t)}_{i}", len(t))(*t) for i in range(n)]
        return interp.new_array(st, (n,), dtype, cells=cells)
    return f


def uf_optvp(interp, st, args, kwargs):
    xx, ww, p, llas = args
    t = _flat_args(interp, st, [xx, ww, p, llas])
    n = xx.shape[0]
    cells = [interp.A.uf(f"OPT{len(t)}_{i}", len(t))(*t) for i in range(n)]
    return (interp.new_array(st, (n,), "float64", cells=cells), interp.A.uf(f"OPTL{len(t)}", len(t))(*t))


DRIVERS = {
    # name: module, layout of the cube, dtype, overrides, extra args
    "ws2doptvplc_tyx": ("hdc.algo.ops.ws2doptvplc", "tyx", "int16", {"autocorr_1d": uf_scalar("AC"), "_ws2doptvp": uf_optvp}),
    "autocorr_tyx": ("hdc.algo.ops.autocorr", "tyx", "int16", {"autocorr_1d": uf_scalar("AC")}),
    "autocorr": ("hdc.algo.ops.autocorr", "yxt", "int16", {"autocorr_1d": uf_scalar("AC")}),
    "gammastd_yxt": ("hdc.algo.ops.stats", "yxt", "int16", {"gammastd": uf_array("GS")}),
    "mann_kendall_trend_yxt": ("hdc.algo.ops.stats", "yxt", "float64",
                               {"mk_score": uf_tuple("MKS", ["num", "num"]), "mk_variance_s": uf_scalar("MKV"),
                                "mk_z_score": uf_scalar("MKZ"), "mk_p_value": uf_tuple("MKP", ["num", "bool"]),
                                "mk_sens_slope": uf_tuple("MKSL", ["num", "num"])}),
}


def cube_cells(layout, nt, nr, nc, px):
    """px[(r, c)][t] -> flat C-order cells of the cube in the given layout."""
    if layout == "tyx":
        return (nt, nr, nc), [px[(r, c)][t] for t in range(nt) for r in range(nr) for c in range(nc)]
    return (nr, nc, nt), [px[(r, c)][t] for r in range(nr) for c in range(nc) for t in range(nt)]


def run_driver(name, nt, nr, nc, px, nd, order="forward", extra=None):
    """-> (interp, {pixel: [result values]}, par_log). px maps grid positions to lists of nt cell values."""
    mod, layout, dtype, ovr = DRIVERS[name]
    it = S.new_interp()
    it.prune_mode = "facts"
    it.prange_order = order
    for k, v in ovr.items():
        it.overrides[k] = v
        it.encoded[f"{mod.rsplit('.', 1)[0]}.*.{k} (abstracted: uninterpreted function of its arguments)"] = "uf"
    fn = it.get_function(mod, name)
    st = State()
    shape, cells = cube_cells(layout, nt, nr, nc, px)
    cube = it.new_array(st, shape, dtype, cells=cells)
    cube.readonly = True
    extra = extra or {}
    if name == "ws2doptvplc_tyx":
        res = it.call_function(st, fn, [cube, extra["p"], nd])
        zz, lo = res
        zv, lv = it.arr_values(st, zz), it.arr_values(st, lo)
        out = {}
        for r in range(nr):
            for c in range(nc):
                out[(r, c)] = [zv[(t * nr + r) * nc + c] for t in range(nt)] + [lv[r * nc + c]]
    elif name in ("autocorr", "autocorr_tyx"):
        z = it.call_function(st, fn, [cube, nd])
        zv = it.arr_values(st, z)
        out = {(r, c): [zv[r * nc + c]] for r in range(nr) for c in range(nc)}
    elif name == "gammastd_yxt":
        y = it.call_function(st, fn, [cube, nd, extra.get("cal_start"), extra.get("cal_stop")])
        yv = it.arr_values(st, y)
        out = {(r, c): [yv[(r * nc + c) * nt + t] for t in range(nt)] for r in range(nr) for c in range(nc)}
    else:
        rr = it.call_function(st, fn, [cube])
        rv = it.arr_values(st, rr)
        out = {(r, c): [rv[(r * nc + c) * 4 + k] for k in range(4)] for r in range(nr) for c in range(nc)}
    return it, st, out


# ---------------------------------------------------------------- per-pixel specifications (same uninterpreted kernels)
def spec_pixel(name, it, xs, nd, extra):
    """The documented per-pixel composition, written from the docstrings / property text, over the same UF symbols."""
    A = it.A
    n = len(xs)
    xr = _reals(xs)
    ndr = V.to_real(V.num_of_bool(nd))
    if name in ("autocorr", "autocorr_tyx"):
        t = xr + [ndr]
        return [A.uf(f"AC{len(t)}", len(t))(*t)]
    if name == "ws2doptvplc_tyx":
        valid = [x != ndr for x in xr]
        ngood = z3.Sum([z3.If(v, 1, 0) for v in valid])
        t = xr + [ndr]
        lc = A.uf(f"AC{len(t)}", len(t))(*t)
        import numpy as np
        g1 = [A.conc(float(v)) for v in np.arange(-2, 1.2, 0.2, dtype="float64")]
        g2 = [A.conc(float(v)) for v in np.arange(0, 3.2, 0.2, dtype="float64")]
        grid = [z3.If(lc > 0.5, V.to_real(a), V.to_real(b)) for a, b in zip(g1, g2)]
        xm = [z3.If(v, x, 0) for v, x in zip(valid, xr)]
        wv = [z3.If(v, z3.RealVal(1), z3.RealVal(0)) for v in valid]
        t2 = xm + wv + [V.to_real(extra["p"])] + grid
        zs = [A.uf(f"OPT{len(t2)}_{i}", len(t2))(*t2) for i in range(n)]
        lo = A.uf(f"OPTL{len(t2)}", len(t2))(*t2)
        rhe = [V.to_real(A.round_half_even(z)) for z in zs]
        return [z3.If(ngood > 1, r, 0) for r in rhe] + [z3.If(ngood > 1, lo, 0)]
    return None


# ---------------------------------------------------------------- the driver worker
def pixel_vars(tag, nt, dtype):
    if dtype.startswith("int"):
        return [z3.Int(f"x{tag}_{t}") for t in range(nt)]
    return [z3.Real(f"x{tag}_{t}") for t in range(nt)]


def w_driver(w, cfg):
    name, nt, nr, nc = cfg["driver"], cfg["nt"], cfg["nr"], cfg["nc"]
    mod, layout, dtype, _ = DRIVERS[name]
    nd = z3.Int("nd")
    px = {(r, c): pixel_vars(f"{r}{c}", nt, dtype) for r in range(nr) for c in range(nc)}
    assume = [nd >= -32768, nd <= 32767]
    if dtype.startswith("int"):
        for v in px.values():
            assume += [z3.And(x >= -32768, x <= 32767) for x in v]
    extra = {}
    if name == "ws2doptvplc_tyx":
        extra["p"] = z3.Real("p")
        assume += [extra["p"] > 0, extra["p"] < 1]
    if name == "gammastd_yxt":
        extra = dict(cfg.get("extra") or {})

    def conc(m):
        return {"driver": name, "layout": layout, "dtype": dtype, "nt": nt, "nr": nr, "nc": nc,
                "pixels": {f"{r},{c}": [C.model_value(m, x) for x in px[(r, c)]] for (r, c) in px},
                "nodata": C.model_value(m, nd), "p": C.model_value(m, extra["p"]) if "p" in extra else None,
                "extra": {k: v for k, v in extra.items() if k != "p"}}

    it, st, joint = run_driver(name, nt, nr, nc, px, nd, "forward", extra)
    w.res.encoded.update(it.encoded)
    facts = list(assume)
    for ob in it.obligations:
        w.discharge(f"{name}.{ob.kind}@{ob.where}", facts, ob.claim, guard=ob.guard, concretize=conc)
    # (1) locality: the same driver on the pixel alone
    for (r, c), xs in px.items():
        it1, st1, alone = run_driver(name, nt, 1, 1, {(0, 0): xs}, nd, "forward", extra)
        w.discharge(f"{name}.pixel_depends_only_on_its_own_series[{r},{c}]", facts, S.all_eq(joint[(r, c)], alone[(0, 0)]),
                    concretize=conc, sample=(r, c) == (nr - 1, nc - 1))
        sp = spec_pixel(name, it, xs, nd, extra)
        if sp is not None:
            w.discharge(f"{name}.pixel_equals_documented_composition[{r},{c}]", facts, S.all_eq(joint[(r, c)], sp), concretize=conc)
    # (2) permuted placement: the cube with rows and columns mirrored
    mirrored = {(nr - 1 - r, nc - 1 - c): v for (r, c), v in px.items()}
    it2, st2, perm = run_driver(name, nt, nr, nc, mirrored, nd, "forward", extra)
    for (r, c) in px:
        w.discharge(f"{name}.permuting_pixels_permutes_results[{r},{c}]", facts, S.all_eq(joint[(r, c)], perm[(nr - 1 - r, nc - 1 - c)]),
                    concretize=conc)
    # (3) parallel loops
    for rec in it.par_log:
        loop = rec["loop"]
        w.discharge(f"{name}.prange_carries_no_name_into_an_iteration@{loop}", facts, z3.BoolVal(not rec["carried"]),
                    concretize=lambda m, rec=rec: dict(conc(m), race=f"names assigned before and inside the parallel loop: {rec['carried']}"))
        per_buf = {}
        for (bid, pos), acc in sorted(rec["accesses"].items()):
            for kind, kw_, gw in acc:
                if kind != "w":
                    continue
                others = [g for kind2, k, g in acc if k != kw_]
                if others:
                    per_buf.setdefault(bid, []).append((pos, z_not(z_and(gw, z_or(*others)))))
        shared = sorted({bid for (bid, _pos) in rec["accesses"]})
        for bid in shared:
            cl = per_buf.get(bid, [])
            cells = sorted({pos for pos, _ in cl})
            w.discharge(f"{name}.prange_iterations_touch_disjoint_cells@{loop}[shared buffer #{shared.index(bid)}]", facts,
                        z_and(*[c_ for _, c_ in cl]) if cl else True,
                        concretize=lambda m, cells=cells: dict(conc(m), race=f"cells {cells[:8]} of a buffer allocated before the parallel loop are written by one iteration and accessed by another"))
    if it.par_log:
        itr, str_, rev = run_driver(name, nt, nr, nc, px, nd, "reverse", extra)
        for (r, c) in px:
            w.discharge(f"{name}.prange_reverse_order_same_result[{r},{c}]", facts, S.all_eq(joint[(r, c)], rev[(r, c)]), concretize=conc)
    w.vacuity(f"{name}.inputs", facts)


def w_lazy(w, cfg):
    from . import c12_lazy as L
    info = L.load_wrapper(C.REPO)
    w.res.encoded["hdc.algo.ops._helper.lazycompile"] = info["hash"]
    m = L.Model(info, cfg["threads"], cfg["calls"])
    cons, claims = m.build()

    def conc(model):
        return {"lazy": True, "threads": cfg["threads"], "calls": cfg["calls"], "schedule": m.describe(model)}
    for name, cl in claims:
        w.discharge(f"lazycompile[{cfg['threads']} threads x {cfg['calls']} calls].{name}", cons, cl, concretize=conc,
                    sample=name.startswith("thread0.call"))
    w.vacuity(f"lazycompile[{cfg['threads']}x{cfg['calls']}].some_schedule_exists", cons)
    # reachability twin: the threads really interleave - thread 1 can start strictly inside thread 0's activation
    e0 = [e for e in m.events if e.thread == 0]
    e1 = [e for e in m.events if e.thread == 1]
    v, _, dt = C.check_sat(list(cons) + [e0[0].ts < e1[0].ts, e1[0].ts < e0[-1].ts], w.timeout_ms, want_model=False)
    w.res.vacuity.append({"name": "lazycompile.a_second_thread_can_enter_during_the_first_activation", "verdict": v,
                          "config": w.config, "time": round(dt, 4)})


class _DT:
    """numpy dtype object of the cube: .kind / .name / .itemsize, accepted by astype()."""

    def __init__(self, name):
        self.dtype_name = name
        self.__name__ = name

    def pysym_getattr(self, it, st, attr):
        n = self.dtype_name
        if attr == "kind":
            return "u" if n.startswith("uint") else ("i" if n.startswith("int") else ("f" if n.startswith("float") else "b"))
        if attr == "name":
            return n
        if attr == "itemsize":
            return int("".join(ch for ch in n if ch.isdigit())) // 8
        if attr == "type":
            return self
        raise Unsupported(f"dtype.{attr}")

    def __str__(self):
        return self.dtype_name


class _LazyCube:
    """dask-backed DataArray contract for PixelAlgorithms.autocorr: dims, attrs, chunks (time chunked into k blocks), chunk()."""

    def __init__(self, dims, attrs, tchunks, log, dtype="int16"):
        self.dims, self.attrs, self.tchunks, self.log, self.dtype = tuple(dims), attrs, tuple(tchunks), log, dtype

    def pysym_getattr(self, it, st, attr):
        from pysym.lib import native
        if attr == "dims":
            return self.dims
        if attr == "attrs":
            return self.attrs
        if attr == "dtype":
            return _DT(self.dtype)
        if attr == "chunks":
            return tuple(self.tchunks if d == "time" else (2,) for d in self.dims)
        if attr == "data":
            return ("dask-array", self)
        if attr == "coords":
            return {}
        if attr == "chunk":
            def chunk(it_, st_, spec=None, **kw):
                spec = dict(spec or {}, **kw)
                self.log.append(("chunk", spec))
                if spec.get("time") in (-1, None) and "time" in spec:
                    return _LazyCube(self.dims, self.attrs, (sum(self.tchunks),), self.log, self.dtype)
                raise Unsupported(f"chunk({spec})")
            return native(chunk)
        raise Unsupported(f"DataArray.{attr}")


def w_accessor(w, cfg):
    """PixelAlgorithms.autocorr on a dask-backed cube: with time leading, the block function must see the WHOLE time axis (one chunk)
    whatever the incoming chunking, lose axis 0 and declare float32; otherwise the gufunc path with time as core dimension."""
    from pysym.interp import Instance
    from pysym.lib import native
    k, lead = cfg["tchunks"], cfg["lead"]
    it = C.new_interp(policy="exact")
    st = State()
    log, calls = [], []
    nd = z3.Int("nd")
    dims = ("time", "y", "x") if lead else ("y", "x", "time")
    cdt = cfg.get("dtype", "int16")
    cube = _LazyCube(dims, {"nodata": nd}, tuple([3] * k), log, cdt)
    cls = it.get_function("hdc.algo.accessors", "PixelAlgorithms")
    cls.link_bases(it)
    inst = Instance(cls)
    inst.fields["_obj"] = cube

    @native
    def map_blocks(it_, st_, func, *args, **kw):
        calls.append(("map_blocks", getattr(func, "name", None), args, kw))
        return ("lazy-result",)

    @native
    def apply_ufunc(it_, st_, func, *args, **kw):
        calls.append(("apply_ufunc", getattr(func, "name", None), args, kw))
        return ("lazy-result",)
    it.lib_overrides["dask.array.map_blocks"] = map_blocks
    it.lib_overrides["xarray.apply_ufunc"] = apply_ufunc
    it.lib_overrides["dask.is_dask_collection"] = native(lambda it_, st_, x: True)
    it.lib_overrides["xarray.DataArray"] = native(lambda it_, st_, data=None, dims=None, coords=None, **kw: ("DataArray", data, tuple(dims or ())))
    it.lib_overrides["warnings.warn"] = native(lambda it_, st_, *a, **kk: None)
    res = it.call_function(st, cls.methods["autocorr"], [inst])
    w.res.encoded.update(it.encoded)
    ok = len(calls) == 1
    passed = None
    if ok and lead:
        kind, fname, args, kw = calls[0]
        blk = args[0][1] if args and isinstance(args[0], tuple) and args[0][0] == "dask-array" else None
        ok = (kind == "map_blocks" and fname == "autocorr_tyx" and blk is not None and len(blk.tchunks) == 1 and blk.tchunks[0] == 3 * k
              and kw.get("drop_axis") in (0, [0], (0,)) and str(kw.get("dtype")) == "float32" and len(args) >= 2
              and isinstance(res, tuple) and res[0] == "DataArray" and res[2] == ("y", "x"))
        passed = args[1] if len(args) >= 2 else None
    elif ok:
        kind, fname, args, kw = calls[0]
        ok = (kind == "apply_ufunc" and fname == "autocorr" and args and args[0] is cube and len(args) >= 2
              and [list(x) for x in kw.get("input_core_dims", [])] == [["time"], []] and kw.get("dask") == "parallelized"
              and [str(x) for x in kw.get("output_dtypes", [])] == ["float32"])
        passed = args[1] if len(args) >= 2 else None
    tag = f"autocorr[dask {cdt}, time {'first' if lead else 'last'}, {k} time chunk(s)]"
    facts = [nd >= -70000, nd <= 70000]        # the nodata attribute is NOT bound to the cube's dtype (uint8 cubes with nodata -1 / -9999 exist)

    def conc(m):
        return {"accessor_dask": True, "tchunks": k, "lead": lead, "nodata": C.model_value(m, nd), "dtype": cdt}
    w.discharge(f"{tag}.block_function_sees_the_whole_time_axis", facts, z3.BoolVal(bool(ok)), concretize=conc)
    if ok and calls:
        # the marker handed to the kernel is the attribute itself, for every value of it (a cast to the cube's dtype wraps)
        try:
            same = V.to_real(V.num_of_bool(passed)) == z3.ToReal(nd)
        except Exception:  # noqa
            same = z3.BoolVal(False)
        w.discharge(f"{tag}.kernel_receives_the_nodata_attribute_unchanged", facts, same, concretize=conc, sample=True)


def worker(w, cfg):
    if cfg["kind"] == "driver":
        return w_driver(w, cfg)
    if cfg["kind"] == "lazy":
        return w_lazy(w, cfg)
    if cfg["kind"] == "accessor":
        return w_accessor(w, cfg)
    if cfg["kind"] == "dask_name":
        from . import C16
        return C16.w_dask_name(w, cfg)      # the explicit dask graph of zonal.mean: layer names separate calls that differ (shared with C16)
    raise Unsupported(cfg["kind"])


def configs(tier):
    cf = []
    nt = 4 if tier == "quick" else 5
    for name in DRIVERS:
        shapes = [(2, 2)] if tier == "quick" else [(2, 2), (3, 1), (1, 3)]
        for nr, nc in shapes:
            c = {"kind": "driver", "driver": name, "nt": 3 if name == "gammastd_yxt" else nt, "nr": nr, "nc": nc}
            if name == "gammastd_yxt":
                for extra in ({}, {"cal_start": 1, "cal_stop": 3}):
                    cf.append(dict(c, extra=extra))
            else:
                cf.append(c)
    for n, k in ([(2, 1), (3, 1), (2, 2)] if tier == "quick" else [(2, 1), (3, 1), (4, 1), (2, 2), (3, 2), (4, 2), (5, 1)]):
        cf.append({"kind": "lazy", "threads": n, "calls": k})
    for k in (1, 2, 3):
        cf.append({"kind": "accessor", "tchunks": k, "lead": True})
    cf.append({"kind": "accessor", "tchunks": 1, "lead": False})
    cf.append({"kind": "dask_name"})
    for cdt in ("uint8", "int32"):
        cf.append({"kind": "accessor", "tchunks": 2, "lead": True, "dtype": cdt})
        cf.append({"kind": "accessor", "tchunks": 1, "lead": False, "dtype": cdt})
    return cf


def replay_candidate(chk, c):
    if c["input"].get("kind") == "dask_names":
        r = chk.replayer.call("c16_dask_names", vary=c["input"]["vary"])
    elif c["input"].get("accessor_dask"):
        r = chk.replayer.call("c12_autocorr_dask", tchunks=c["input"]["tchunks"], lead=c["input"]["lead"], nodata=c["input"]["nodata"],
                              dtype=c["input"].get("dtype", "int16"))
    elif c["input"].get("lazy"):
        r = chk.replayer.call("c12_lazy", threads=c["input"]["threads"], schedule=c["input"]["schedule"])
    else:
        r = chk.replayer.call("c12_driver", **c["input"])
    return bool(r["violates"]), r


def selftest(chk):
    """Reachability twins of the two concurrency mechanisms: a deliberately racy prange loop must produce a `sat` race
    obligation, and a wrapper that publishes a placeholder before compiling must produce a `sat` schedule."""
    import tempfile
    import textwrap
    from . import c12_lazy as L
    from pysym.interp import State as St
    src = textwrap.dedent("""
        import numba
        import numpy as np
        def racy(a):
            n = a.shape[0]
            tmp = np.zeros(2)
            out = np.zeros(n)
            for i in numba.prange(n):
                tmp[0] = a[i]
                out[i] = tmp[0] * 2
            return out
    """)
    with tempfile.TemporaryDirectory(dir=os.path.dirname(C.VERIF) if False else None) as d:
        open(os.path.join(d, "c12_twin.py"), "w").write(src)
        it = C.new_interp()
        it.extra_roots["c12_twin"] = d
        fn = it.get_function("c12_twin", "racy")
        st = St()
        a = it.new_array(st, (2,), "float64", cells=[z3.Real("a0"), z3.Real("a1")])
        it.call_function(st, fn, [a])
        rec = it.par_log[0]
        hit = any(any(k == "w" for k, _, _ in acc) and len({i for _, i, _ in acc}) > 1 for acc in rec["accesses"].values())
        if not hit:
            chk.notes.append("self-test: the prange race analysis did not flag a deliberately shared scratch array")
            chk.validation["mismatches"] += 1
        chk.validation["cases"] += 1
    info = L.load_wrapper(C.REPO)
    twin = dict(info)
    w_ = ast.parse(textwrap.dedent("""
        def wrapper(*args, **kwds):
            nonlocal inner_decorated
            if inner_decorated is None:
                inner_decorated = False
                inner_decorated = internal_decorator(f)
            return inner_decorated(*args, **kwds)
    """)).body[0]
    twin["wrapper"], twin["deco"], twin["f"], twin["init"] = w_, "internal_decorator", "f", {"inner_decorated": ("const", None)}
    m = L.Model(twin, 2, 1)
    cons, claims = m.build()
    v, _, _ = C.check_sat(list(cons) + [z3.Not(z3.And(*[c for _, c in claims]))], 20000, want_model=False)
    chk.validation["cases"] += 1
    if v != "sat":
        chk.notes.append(f"self-test: the schedule model did not find the placeholder interleaving ({v})")
        chk.validation["mismatches"] += 1
    if "lazycompile schedule model / prange race log (self-test twins)" not in chk.validation["functions"]:
        chk.validation["functions"].append("lazycompile schedule model / prange race log (self-test twins)")


def validate(chk, seed):
    """Translator validation: the drivers with their real per-pixel kernels in the evaluator's concrete mode vs the compiled code."""
    import random
    rnd = random.Random(seed + 5)
    for name in ("autocorr_tyx", "autocorr"):
        mod, layout, dtype, _ = DRIVERS[name]
        nt, nr, nc = 6, 2, 2
        px = {(r, c): [rnd.randint(0, 300) for _ in range(nt)] for r in range(nr) for c in range(nc)}
        px[(0, 1)][2] = -9999
        it = C.new_interp(concrete=True)
        fn = it.get_function(mod, name)
        st = State()
        shape, cells = cube_cells(layout, nt, nr, nc, px)
        z = it.call_function(st, fn, [it.new_array(st, shape, dtype, cells=cells), -9999])
        mine = [float(v) for v in it.arr_values(st, z)]
        import itertools as _it
        nested = [[[cells[(i * shape[1] + j) * shape[2] + k] for k in range(shape[2])] for j in range(shape[1])] for i in range(shape[0])]
        real = chk.replayer.call("call", fn=f"hdc.algo.ops.autocorr:{name}", args=[{"nd": nested, "dtype": dtype}, -9999])["value"]
        flat = [v for row in real for v in row]
        chk.validate(name, mine, flat, tol=1e-5)


def main(tier, seed, nproc=None):
    os.environ.setdefault("NUMBA_NUM_THREADS", "16")     # the replayer compares 1 thread with all threads
    chk = C.Check(PID, tier, seed)
    chk.assumptions = [
        "per-pixel kernels (autocorr_1d, _ws2doptvp, gammastd, mk_*) are uninterpreted functions of their arguments: deterministic and "
        "without side effects on their inputs - their own behaviour is the subject of C04/C07/C10/C15",
        "int16 cubes, nodata any int16 value, 0 < p < 1; pixel values, nodata, p symbolic; every gap pattern (the validity mask is symbolic)",
        "prange: Numba's documented semantics - iterations may run in any order and concurrently; a name assigned in the body is private "
        "to the iteration; arrays allocated before the loop are shared",
        "lazycompile: a read or write of the shared closure cell is atomic (GIL); internal_decorator(f) returns a fresh function "
        "equivalent to f (Numba's compile lock and code generator are outside); schedules = all interleavings of these atomic events",
    ]
    chk.bounds = {"cube": "2x2 pixels x 4 steps (quick); 2x2, 3x1, 1x3 x 5 steps (thorough); gammastd_yxt 3 steps",
                  "lazycompile": "2-3 threads x 1-2 calls each (quick); up to 5 threads x 1 / 4 threads x 2 calls (thorough)"}
    chk.outside = ["dask graph construction and execution, schedulers, xarray.apply_ufunc, chunk handling inside dask",
                   "Numba's threading layer, parfor lowering and compile lock; bit-identity of floating point under vectorisation",
                   "the guvectorize kernels' broadcasting loop (generated by Numba, not Python source)",
                   "cubes larger than the stated sizes (the drivers' loops are unrolled)"]
    validate(chk, seed)
    selftest(chk)
    chk.run(worker, configs(tier), nproc)
    chk.confirm(lambda c: replay_candidate(chk, c))
    return chk.finish(
        rule="per driver and cube shape: one query per pixel for locality (joint run vs the pixel alone), per-pixel specification, mirrored "
             "placement, reverse prange order; one query per shared buffer of a prange loop (write set of an iteration disjoint from the "
             "accesses of the others); per thread count: one query per call event / activation of the lazycompile wrapper over all "
             "schedules; non-trivial = >= 1 free variable; distinct by goal hash",
        explanation="pixel-loop drivers executed symbolically on cubes of symbolic pixels with uninterpreted per-pixel kernels; z3 decides "
                    "that each pixel's result is the per-pixel composition of its own series whatever its position / neighbours / iteration "
                    "order, that prange iterations are free of data races (hence thread-count independent), and - on the real lazycompile "
                    "source split into atomic shared-cell events under a symbolic schedule - that concurrent first use always calls a "
                    "compiled function",
        trusted=["pysym evaluator and its prange / access-log model", "the schedule encoder of harness/c12_lazy.py", "z3"])


def replay(path):
    chk = C.Check(PID, "quick", 0)
    c = json.load(open(path))
    ok, detail = replay_candidate(chk, c)
    chk.replayer.close()
    print(json.dumps(detail, default=str)[:2000])
    if ok:
        print(f"VIOLATION property={PID} replay={path}")
        return 1
    return 0
