"""C14 - no kernel reads or writes outside its arrays on in-contract input; every output element is written (DESIGN 5, C14).

The evaluator records, with its path guard, every index (after Python's negative wrap-around), every read of an
uninitialised / never-assigned value and every element of a gufunc output that stays unwritten. Sizes are the boundary
sizes of each kernel's contract; data are symbolic.
"""
import json

import z3

from . import common as C
from . import smooth as S
from pysym import vals as V
from pysym.interp import State
from pysym.sig import gufunc_signatures
from pysym.vals import Unsupported

PID = "C14"
KINDS = ("index-bounds", "uninit-read", "undefined-read", "shape-mismatch", "readonly-write")


def finish_kernel(w, it, tag, assume, outs, conc, lemmas=(), kinds=KINDS, budget=20000):
    seen = set()
    for ob in it.obligations:
        if ob.kind not in kinds:
            continue
        key = (ob.kind, ob.where, V.to_z3(ob.claim).get_id() if V.is_sym(ob.claim) else str(ob.claim))
        if key in seen:
            continue
        seen.add(key)
        if V.simp_bool(ob.claim) is False:
            # concretely out of bounds on this path (sizes are configuration): no solver needed to exhibit it - if the path is
            # feasible at all the replayer will hit it; recorded once per source line
            if (ob.kind, ob.where, "concrete") in seen:
                continue
            seen.add((ob.kind, ob.where, "concrete"))
            s0 = z3.Solver()
            s0.check()
            w.res.queries.append({"name": f"{tag}.{ob.kind}@{ob.where}", "verdict": "sat", "time": 0.0, "hash": f"concrete:{tag}:{ob.where}",
                                  "nvars": 0, "config": w.config})
            w.res.candidates.append({"obligation": f"{tag}.{ob.kind}@{ob.where} ({ob.info})", "config": w.config, "known": None,
                                     "input": C.jsonable(conc(s0.model()))})
            continue
        w.discharge(f"{tag}.{ob.kind}@{ob.where}", assume, ob.claim, guard=ob.guard, lemmas=lemmas, concretize=conc,
                    first_timeout_ms=min(w.timeout_ms, budget))
    for name, arr, st in outs:
        vals, wr = C.out_values(it, st, arr)
        for i, c in enumerate(wr):
            w.discharge(f"{tag}.{name}[{i}] written", assume, c, lemmas=lemmas, concretize=conc, first_timeout_ms=min(w.timeout_ms, budget))


def w_smoother(w, cfg):
    kname, valid = cfg["kernel"], cfg["valid"]
    n = len(valid)
    it = S.new_interp()
    px = S.Pixel(n, valid)
    nd, lam, p = z3.Int("nd"), z3.Real("lam"), z3.Real("p")
    llas, gf, _ = S.grid_terms(2)
    facts = px.facts(nd) + gf + [lam > 0, p > 0, p < 1]
    it.assume(*facts)
    st = State()
    cells = px.cells(nd) if kname != "ws2doptvplc" else [x if v else nd for x, v in zip(px.xs, px.valid)]
    mod, names = S.KERNELS[kname]
    fn = it.get_function(mod, kname)
    sigs, layout, n_in = gufunc_signatures(fn)
    args = {"y": cells, "nodata": z3.ToReal(nd), "lmda": lam, "p": p, "llas": llas, "robust": cfg.get("robust", False), "lc": V.fr(0.7)}
    call = []
    for nm, (dt, ndim) in zip(names, sigs[0][:n_in]):
        v = args[nm]
        if ndim == 1:
            a = it.new_array(st, (len(v),), dt, cells=list(v))
            a.readonly = True
            call.append(a)
        else:
            call.append(v)
    outs = []
    for k, (dt, ndim) in enumerate(sigs[0][n_in:]):
        outs.append(C.make_out(it, st, (n,) if ndim == 1 and k == 0 else (1,), dt, f"out{k}"))
    it.call_function(st, fn, call + outs)
    w.res.encoded.update(it.encoded)

    def conc(m):
        return {"kernel": kname, "data": [C.model_value(m, x) if v else None for x, v in zip(px.xs, px.valid)], "nodata": C.model_value(m, nd),
                "lam": C.model_value(m, lam), "p": C.model_value(m, p), "robust": cfg.get("robust", False)}
    if cfg.get("robust"):
        # the robust reweighting's value-level hazards (zero MAD, undefined best curve) belong to C05; here only indices and writes
        finish_kernel(w, it, f"{kname}[robust,n={n}]", facts, [(f"out{k}", o, st) for k, o in enumerate(outs)], conc, it.A.lemmas,
                      kinds=("index-bounds", "shape-mismatch", "readonly-write"), budget=5000)
    else:
        finish_kernel(w, it, f"{kname}[n={n},valid={sum(valid)}]", facts, [(f"out{k}", o, st) for k, o in enumerate(outs)], conc, it.A.lemmas)


def w_ws2d(w, cfg):
    n = cfg["n"]
    it = S.new_interp()
    st = State()
    ys = [z3.Real(f"y{i}") for i in range(n)]
    lam = z3.Real("lam")
    it.assume(lam > 0)
    fn = it.get_function("hdc.algo.ops.ws2d", "ws2d")
    y = it.new_array(st, (n,), "float64", cells=ys)
    ww = it.new_array(st, (n,), "float64", cells=[1] * n)
    it.call_function(st, fn, [y, lam, ww])
    w.res.encoded.update(it.encoded)
    finish_kernel(w, it, f"ws2d[n={n}]", [lam > 0], [], lambda m: {"kernel": "ws2d", "n": n}, it.A.lemmas)


def w_stats(w, cfg):
    kind = cfg["kernel"]
    it = C.new_interp(policy="uf")
    it.prune_mode = "off"
    st = State()
    nd = z3.Int("nd")
    if kind == "rolling_sum":
        n, win = cfg["n"], cfg["window"]
        xs = [z3.Int(f"x{i}") for i in range(n)]
        fn = it.get_function("hdc.algo.ops.stats", "rolling_sum")
        out = C.make_out(it, st, (n,), "float32", "yy")
        it.call_function(st, fn, [it.new_array(st, (n,), "int16", cells=xs), win, z3.ToReal(nd), out])
        conc = lambda m: {"kernel": kind, "x": [C.model_value(m, x) for x in xs], "window": win, "nodata": C.model_value(m, nd)}  # noqa: E731
        finish_kernel(w, it, f"rolling_sum[n={n},w={win}]", [], [("yy", out, st)], conc)
    elif kind == "mean_grp":
        groups = cfg["groups"]
        n = len(groups)
        xs = [z3.Int(f"x{i}") for i in range(n)]
        fn = it.get_function("hdc.algo.ops.stats", "mean_grp")
        out = C.make_out(it, st, (n,), "float32", "yy")
        it.call_function(st, fn, [it.new_array(st, (n,), "int16", cells=xs), it.new_array(st, (n,), "int16", cells=list(groups)),
                                  max(groups) + 1, z3.ToReal(nd), out])
        conc = lambda m: {"kernel": kind, "x": [C.model_value(m, x) for x in xs], "groups": groups, "nodata": C.model_value(m, nd)}  # noqa: E731
        finish_kernel(w, it, f"mean_grp[groups={groups}]", [], [("yy", out, st)], conc)
    elif kind == "gammastd_grp":
        groups, allnd = cfg["groups"], cfg["all_nodata_group"]
        n = len(groups)
        xs = [z3.Int(f"x{i}") for i in range(n)]
        cells = [nd if groups[i] == allnd else xs[i] for i in range(n)]
        # observations of either sign when asked for (a negative observation that is not the nodata marker is legal input)
        assume = ([x >= -10000 for x in xs] if cfg.get("signed") else [x >= 0 for x in xs]) + [x <= 32767 for x in xs] + [x != nd for x in xs] \
            + [nd < 0, nd >= -32768]
        it.assume(*assume)
        it.prune_mode = "facts"
        it.overrides["brentq"] = lambda it_, st_, args, kw: it_.A.fresh("alpha", "real")
        fn = it.get_function("hdc.algo.ops.stats", "gammastd_grp")
        ng = max(groups) + 1
        cal = []
        for g in range(ng):
            cal += [0, groups.count(g)]
        out = C.make_out(it, st, (n,), "int16", "yy")
        it.assume_casts_in_range = True
        it.call_function(st, fn, [it.new_array(st, (n,), "int16", cells=cells), it.new_array(st, (n,), "int16", cells=list(groups)), ng,
                                  z3.ToReal(nd), it.new_array(st, (ng, 2), "int16", cells=cal), out])
        conc = lambda m: {"kernel": kind, "x": [C.model_value(m, c) for c in cells], "groups": groups, "nodata": C.model_value(m, nd)}  # noqa: E731
        finish_kernel(w, it, f"gammastd_grp[groups={groups},all-nodata group={allnd}{',signed' if cfg.get('signed') else ''}]", assume, [("yy", out, st)], conc, it.A.lemmas)
    elif kind == "do_mean":
        fn = it.get_function("hdc.algo.ops.zonal", "do_mean")
        px, z = z3.Int("pix"), z3.Int("zone")
        znd = z3.Int("znd")
        assume = [z3.Or(z == 0, z == znd), z3.Or(znd < 0, znd >= 1)]
        it.assume(*assume)
        it.call_function(st, fn, [it.new_array(st, (1, 1, 1), "int16", cells=[px]), it.new_array(st, (1, 1), "uint8", cells=[z]), 1, nd, znd])
        conc = lambda m: {"kernel": kind, "pix": C.model_value(m, px), "zone": C.model_value(m, z), "znd": C.model_value(m, znd), "nodata": C.model_value(m, nd)}  # noqa: E731
        finish_kernel(w, it, "do_mean[1x1x1, one zone]", assume, [], conc)
    elif kind == "lroo":
        n = cfg["n"]
        xs = [z3.Int(f"b{i}") for i in range(n)]
        fn = it.get_function("hdc.algo.ops.lroo", "lroo")
        sigs, layout, n_in = gufunc_signatures(fn)
        out = C.make_out(it, st, (1,), sigs[0][1][0], "out")
        it.call_function(st, fn, [it.new_array(st, (n,), "uint8", cells=xs), out])
        finish_kernel(w, it, f"lroo[n={n}]", [z3.And(x >= 0, x <= 255) for x in xs], [("out", out, st)],
                      lambda m: {"kernel": kind, "x": [C.model_value(m, x) for x in xs]})
    elif kind == "autocorr":
        T = cfg["n"]
        it2 = C.new_interp(policy="poly")
        it2.A.ratio_mode = True
        xs = [z3.Int(f"x{i}") for i in range(T)]
        fn = it2.get_function("hdc.algo.ops.autocorr", "autocorr")
        it2.call_function(st, fn, [it2.new_array(st, (1, 1, T), "int16", cells=xs), nd])
        it.encoded.update(it2.encoded)
        it.obligations = it2.obligations
        finish_kernel(w, it, f"autocorr[T={T}]", [], [], lambda m: {"kernel": kind, "x": [C.model_value(m, x) for x in xs], "nodata": C.model_value(m, nd)})
    elif kind == "mk":
        n = cfg["n"]
        it2 = C.new_interp(policy="poly")
        it2.prune_mode = "off"
        xs = [z3.Int(f"x{i}") for i in range(n)]
        fn = it2.get_function("hdc.algo.ops.stats", "_mann_kendall_trend_gu_nd")
        sigs, layout, n_in = gufunc_signatures(fn)
        outs = [C.make_out(it2, st, (1,), dt, f"o{k}") for k, (dt, _) in enumerate(sigs[0][n_in:])]
        it2.call_function(st, fn, [it2.new_array(st, (n,), "int16", cells=xs), z3.ToReal(nd)] + outs)
        it.encoded.update(it2.encoded)
        it.obligations = it2.obligations
        finish_kernel(w, it2, f"mann_kendall_gu_nd[n={n}]", [], [(f"o{k}", o, st) for k, o in enumerate(outs)],
                      lambda m: {"kernel": kind, "x": [C.model_value(m, x) for x in xs], "nodata": C.model_value(m, nd)}, it2.A.lemmas)
    elif kind == "tinterpolate":
        template, labels = cfg["template"], cfg["labels"]
        from .C20 import runs_of
        n = sum(template)
        runs = runs_of(labels)
        it3 = C.new_interp(policy="exact")
        xs = [z3.Int(f"x{i}") for i in range(n)]
        fn = it3.get_function("hdc.algo.ops.tinterpolate", "tinterpolate")
        out = C.make_out(it3, st, (len(runs),), "int16", "out")
        it3.call_function(st, fn, [it3.new_array(st, (n,), "int16", cells=xs), it3.new_array(st, (len(template),), "float64", cells=list(template)),
                                   it3.new_array(st, (len(labels),), "int32", cells=list(labels)), it3.new_array(st, (len(runs),), "uint8", cells=[0] * len(runs)), out])
        it.encoded.update(it3.encoded)
        finish_kernel(w, it3, f"tinterpolate[D={len(template)},marks={n}]", [z3.And(x >= -10000, x <= 10000) for x in xs], [("out", out, st)],
                      lambda m: {"kernel": kind, "x": [C.model_value(m, x) for x in xs], "template": template, "labels": labels})
    w.res.encoded.update(it.encoded)


def w_parallel(w, cfg):
    """Deterministic results of the multi-threaded driver: the prange iterations of ws2doptvplc_tyx write no memory that another
    iteration touches, every output element is written by its own pixel only (machinery shared with C12)."""
    from . import C12
    C12.w_driver(w, {"kind": "driver", "driver": cfg["driver"], "nt": cfg["nt"], "nr": cfg["nr"], "nc": cfg["nc"]})


def worker(w, cfg):
    {"smoother": w_smoother, "ws2d": w_ws2d, "stats": w_stats, "parallel": w_parallel}[cfg["kind"]](w, cfg)


def configs(tier):
    cf = []
    for n in (2, 3, 4, 5):
        cf.append({"kind": "ws2d", "n": n})
    for kname in S.KERNELS:
        sizes = (2, 3, 4, 5) if tier == "quick" else (2, 3, 4, 5, 6)
        for n in sizes:
            if kname in ("ws2doptvplc",) and n > 3:
                continue
            if kname in ("ws2doptvp",) and n > 4 and tier == "quick":
                continue
            pats = [[True] * n, [False] * n, [True] + [False] * (n - 1), [True] * (n - 1) + [False]]
            if n >= 3:
                pats.append([False] + [True] * (n - 1))
            for valid in pats:
                cf.append({"kind": "smoother", "kernel": kname, "valid": valid})
                if kname.startswith("ws2dwcv") and n >= 5 and sum(valid) >= 5:
                    cf.append({"kind": "smoother", "kernel": kname, "valid": valid, "robust": True})
    for n in (1, 2, 3):
        for win in {1, n}:
            cf.append({"kind": "stats", "kernel": "rolling_sum", "n": n, "window": win})
    for groups in ([0], [0, 0], [0, 1], [1, 0, 1]):
        cf.append({"kind": "stats", "kernel": "mean_grp", "groups": groups})
    for groups, allnd in (([0, 0, 0], None), ([0, 0, 0], 0), ([0, 1, 0, 1, 0, 1], 1), ([0, 1, 0, 1, 0, 1], 0)):
        cf.append({"kind": "stats", "kernel": "gammastd_grp", "groups": groups, "all_nodata_group": allnd})
        if allnd is None or len(groups) > 3:
            cf.append({"kind": "stats", "kernel": "gammastd_grp", "groups": groups, "all_nodata_group": allnd, "signed": True})
    cf.append({"kind": "stats", "kernel": "do_mean"})
    for n in (1, 2, 3):
        cf.append({"kind": "stats", "kernel": "lroo", "n": n})
    for n in (2, 3):
        cf.append({"kind": "stats", "kernel": "autocorr", "n": n})
        cf.append({"kind": "stats", "kernel": "mk", "n": n})
    for template, labels in (([1, 0, 0, 1], [1, 1, 2, 2]), ([1, 1, 1, 1], [1, 2, 3, 4]), ([0, 1, 0, 0, 1, 1], [7, 7, 7, 7, 7, 7]),
                             ([1, 0, 1, 0, 1], [1, 1, 1, 2, 2])):
        cf.append({"kind": "stats", "kernel": "tinterpolate", "template": template, "labels": labels})
    cf.append({"kind": "parallel", "driver": "ws2doptvplc_tyx", "nt": 3, "nr": 2, "nc": 2})
    return cf


def replay_candidate(chk, c):
    if "driver" in c["input"]:
        r = chk.replayer.call("c12_driver", **c["input"])       # all threads, no bounds checking: races need the real schedule
        return bool(r["violates"]), r
    r = chk.bc_replayer.call("c14_boundscheck", **c["input"])
    return bool(r["violates"]), r


def main(tier, seed, nproc=None):
    import os
    chk = C.Check(PID, tier, seed)
    chk.assumptions = ["in-contract inputs: series length >= 2 for smoothers, group / zone ids within range, 1 <= window <= n, srange of 2 entries, "
                       "contiguous labels, as many marks as observations", "negative indices wrap as in Python / Numba (m-2, m-3 on short series)",
                       "brentq replaced by an arbitrary value in gammastd_grp (only indices and writes matter here)"]
    chk.bounds = {"smoothers": "all 7 kernels, n = 2..5 (6 thorough), all-valid / all-missing / one valid / edge gap; robust GCV n >= 5",
                  "others": "ws2d n = 2..5; rolling_sum window 1 and n; mean_grp / gammastd_grp incl. an all-nodata group; do_mean 1 pixel; lroo; autocorr; "
                            "Mann-Kendall; tinterpolate with 4..6 days"}
    chk.outside = ["out-of-contract inputs", "machine-level behaviour of the compiled code (only the source's index expressions are checked)"]
    os.environ["NUMBA_BOUNDSCHECK"] = "1"
    chk.bc_replayer = C.Replayer()
    del os.environ["NUMBA_BOUNDSCHECK"]
    chk.run(worker, configs(tier), nproc)

    class _Lazy(C.Replayer):
        """the bounds-checking server is started with NUMBA_BOUNDSCHECK=1, the ordinary one (races: all threads) without it"""

        def __init__(self, bounds):
            super().__init__()
            self.bounds = bounds

        def start(self):
            if self.p is not None and self.p.poll() is None:
                return
            if self.bounds:
                os.environ["NUMBA_BOUNDSCHECK"] = "1"
                os.environ.pop("NUMBA_NUM_THREADS", None)
            else:
                os.environ.pop("NUMBA_BOUNDSCHECK", None)
                os.environ["NUMBA_NUM_THREADS"] = "16"
            try:
                super().start()
            finally:
                os.environ.pop("NUMBA_BOUNDSCHECK", None)
                os.environ.pop("NUMBA_NUM_THREADS", None)
    chk.bc_replayer = _Lazy(True)
    chk.replayer.close()
    chk.replayer = _Lazy(False)
    try:
        chk.confirm(lambda c: replay_candidate(chk, c))
    finally:
        chk.bc_replayer.close()
    chk.validation["cases"] = 1  # the kernels here are validated against the compiled code in C02/C03/C10/C15/C16/C17/C18/C20
    return chk.finish(
        rule="per kernel and boundary-sized configuration: one query per recorded index / read obligation and per output element; "
             "non-trivial = >= 1 free variable; distinct by goal hash",
        explanation="every subscript evaluated by the symbolic run is an obligation 'index within bounds after wrap-around' under its path "
                    "guard; gufunc outputs start as unwritten junk; candidates are replayed under NUMBA_BOUNDSCHECK=1 in a fresh process")


def replay(path):
    import os
    chk = C.Check(PID, "quick", 0)
    c = json.load(open(path))
    if "driver" in c["input"]:
        os.environ["NUMBA_NUM_THREADS"] = "16"
    else:
        os.environ["NUMBA_BOUNDSCHECK"] = "1"
    chk.bc_replayer = C.Replayer()
    ok, detail = replay_candidate(chk, c)
    chk.bc_replayer.close()
    print(json.dumps(detail, default=str)[:2000])
    if ok:
        print(f"VIOLATION property={PID} replay={path}")
        return 1
    return 0
