"""C15 - lag-1 autocorrelation = Pearson correlation with mean-filled gaps (DESIGN 5, C15).

Per gap pattern the kernel's sums are integer polynomials in the symbolic values. sqrt / x**-0.5 are kept symbolic as
Ratio(num, den, rad) = num / (den * sqrt(rad)), so the returned value can be compared with the definition as polynomial
identities:  num^2 * P * Q == C^2 * den^2 * rad  and  num == kappa * C * den  (kappa a positive constant).
"""
import itertools
import json
import random
from fractions import Fraction

import z3

from . import common as C
from pysym import vals as V
from pysym.interp import State, Choice
from pysym.vals import Ratio, Unsupported, z_and, z_not

PID = "C15"


def leaves(v, cond=True):
    if isinstance(v, Choice):
        yield from leaves(v.a, z_and(cond, v.cond))
        yield from leaves(v.b, z_and(cond, z_not(v.cond)))
    else:
        yield cond, v


def spec_terms(xs, valid):
    """Mean-filled Pearson, cleared of denominators: r = Cc / sqrt(P * Q). Everything over the reals ToReal(x_i)."""
    T = len(xs)
    xr = [z3.ToReal(x) for x in xs]
    vx = [i for i in range(T - 1) if valid[i]]
    vy = [i for i in range(1, T) if valid[i]]
    nx, ny = len(vx), len(vy)
    zero = z3.RealVal(0)
    Sx = z3.Sum([xr[i] for i in vx]) if vx else zero
    Sy = z3.Sum([xr[i] for i in vy]) if vy else zero
    dx = {i: nx * xr[i] - Sx for i in vx}
    dy = {i: ny * xr[i] - Sy for i in vy}
    both = [i for i in range(T - 1) if valid[i] and valid[i + 1]]
    Cc = z3.Sum([dx[i] * dy[i + 1] for i in both]) if both else zero
    P = z3.Sum([dx[i] * dx[i] for i in vx]) if vx else zero
    Q = z3.Sum([dy[i] * dy[i] for i in vy]) if vy else zero
    lem = [dx[i] * dx[i] >= 0 for i in vx] + [dy[i] * dy[i] >= 0 for i in vy]
    return Cc, P, Q, len(both), lem


def eval_int(t, env):
    return C.model_value(env, t)


def check_result(w, name, res, xs, valid, assume, conc, wb):
    Cc, P, Q, nxy, lem = spec_terms(xs, valid)
    # sums of squares of integers: non-negative, and either 0 or >= 1
    lem2 = [P >= 0, Q >= 0, z3.Or(P == 0, P >= 1), z3.Or(Q == 0, Q >= 1)]
    # sample point to guess the constant factor between the kernel's numerator and the definition's
    for k, (cond, leaf) in enumerate(leaves(res)):
        if isinstance(leaf, V.Partial):
            w.discharge(f"{name}.defined[{k}]", assume, leaf.defined, guard=cond, concretize=conc)
            leaf = leaf.value
        if isinstance(leaf, Ratio):
            num, den, rad = (V.to_z3(leaf.num), V.to_z3(leaf.den), V.to_z3(leaf.rad))
            num = z3.ToReal(num) if z3.is_int(num) else num
            den = z3.ToReal(den) if z3.is_int(den) else den
            rad = z3.ToReal(rad) if z3.is_int(rad) else rad
            Cr, Pr, Qr = Cc, P, Q
            w.discharge(f"{name}.pearson_squared_identity[{k}]", assume, num * num * Pr * Qr == Cr * Cr * den * den * rad, guard=cond,
                        lemmas=lem, concretize=conc, witness_bounds=wb, first_timeout_ms=2000, sample=(k == 0))
            # sign: numerator is a positive constant multiple of the definition's covariance term
            kappa = guess_kappa(num, den, Cr, xs)
            if kappa is not None and kappa > 0:
                w.discharge(f"{name}.sign_identity[{k}]", assume, num == z3.RealVal(kappa) * Cr * den, guard=cond, lemmas=lem,
                            concretize=conc, witness_bounds=wb, first_timeout_ms=2000)
            else:
                w.discharge(f"{name}.sign[{k}]", assume, num * den * Cr >= 0, guard=cond, lemmas=lem, concretize=conc,
                            witness_bounds=wb, first_timeout_ms=2000)
            # radicand: a positive constant multiple of P*Q, and both variances non-zero on this path
            kr = guess_kappa(rad, z3.RealVal(1), Pr * Qr, xs)
            if kr is not None and kr > 0:
                w.discharge(f"{name}.radicand_identity[{k}]", assume, z3.And(rad == z3.RealVal(kr) * Pr * Qr, den != 0), guard=cond,
                            lemmas=lem, concretize=conc, witness_bounds=wb, first_timeout_ms=2000)
                w.discharge(f"{name}.ratio_only_with_variance[{k}]", assume, z3.And(Pr >= 1, Qr >= 1), guard=cond, lemmas=lem2,
                            concretize=conc, witness_bounds=wb, first_timeout_ms=2000, abstract_nonlinear=True)
            else:
                w.discharge(f"{name}.radicand_positive[{k}]", assume, z3.And(rad > 0, den != 0), guard=cond, lemmas=lem,
                            concretize=conc, witness_bounds=wb, first_timeout_ms=2000)
        elif not V.is_sym(leaf) and not isinstance(leaf, (Ratio, Choice)) and leaf == 0:
            claim = z3.Or(z3.BoolVal(nxy == 0), P == 0, Q == 0)
            w.discharge(f"{name}.zero_only_without_pairs_or_variance[{k}]", assume, claim, guard=cond, lemmas=lem2,
                        concretize=conc, witness_bounds=wb, first_timeout_ms=2000, abstract_nonlinear=True)
        else:
            # any other shape of result (plain term): compare through its square as well
            t = V.to_real(leaf)
            w.discharge(f"{name}.pearson_squared_identity_plain[{k}]", assume, t * t * P * Q == Cc * Cc,
                        guard=cond, lemmas=lem, concretize=conc, witness_bounds=wb, first_timeout_ms=2000)
    # a pixel with pairs and variance must not be reported as 0 unless the correlation is 0: covered by the identity on Ratio leaves


def guess_kappa(num, den, Cr, xs):
    rnd = random.Random(12345)
    for _ in range(8):
        sub = [(x, z3.IntVal(rnd.randint(-9, 9))) for x in xs] + [(z3.Int("nd"), z3.IntVal(-77))]
        n = z3.simplify(z3.substitute(num, *sub))
        d = z3.simplify(z3.substitute(den, *sub))
        c = z3.simplify(z3.substitute(Cr, *sub))
        try:
            nv = Fraction(n.numerator_as_long(), n.denominator_as_long())
            dv = Fraction(d.numerator_as_long(), d.denominator_as_long())
            cv = Fraction(c.numerator_as_long(), c.denominator_as_long())
        except Exception:
            return None
        if cv != 0 and dv != 0:
            return nv / dv / cv
    return None


def witness_sets(vs, nd):
    """Partial assignments handed to the solver when a non-linear query is not decided: all but two variables pinned, the
    remaining two bounded - the solver still produces the counterexample, from a low-degree residual problem."""
    rnd = random.Random(len(vs) * 7919)
    out = []
    for _ in range(4):
        free = rnd.sample(range(len(vs)), min(2, len(vs)))
        cs = [nd == -77]
        for i, v in enumerate(vs):
            if i in free:
                cs.append(z3.And(v >= -12, v <= 12))
            else:
                cs.append(v == rnd.randint(-9, 9))
        out.append(cs)
    return out


def worker(w, cfg):
    C.SOM["on"] = True
    kind, valid = cfg["kind"], cfg["valid"]
    T = len(valid)
    it = C.new_interp(policy="poly")
    it.A.ratio_mode = True
    xs = [z3.Int(f"x{i}") for i in range(T)]
    nd = z3.Int("nd")
    assume = [x != nd for x, v in zip(xs, valid) if v]
    wb = witness_sets(xs, nd)
    it.assume(*assume)
    st = State()

    def conc(m, kind=kind):
        return {"kind": kind, "data": [C.model_value(m, x) if v else None for x, v in zip(xs, valid)],
                "nodata": C.model_value(m, nd)}
    conc_ob = None
    if kind == "int1d":
        fn = it.get_function("hdc.algo.ops.autocorr", "autocorr_1d")
        data = it.new_array(st, (T,), "int16", cells=[x if v else nd for x, v in zip(xs, valid)])
        data.readonly = True
        res = it.call_function(st, fn, [data, nd])
        w.res.encoded.update(it.encoded)
        check_result(w, "autocorr_1d[int]", res, xs, valid, assume, conc, wb)
    elif kind in ("float1d", "float1d32"):
        fn = it.get_function("hdc.algo.ops.autocorr", "autocorr_1d")
        if kind == "float1d32":
            it.narrow = {}
        data = it.new_array(st, (T,), "float64" if kind == "float1d" else "float32", cells=[z3.ToReal(x) if v else V.NAN for x, v in zip(xs, valid)])
        data.readonly = True
        res = it.call_function(st, fn, [data])
        w.res.encoded.update(it.encoded)
        check_result(w, "autocorr_1d[float]", res, xs, valid, assume, conc, wb)
    else:
        # drivers: two pixels, the second one all-valid with its own values
        ys = [z3.Int(f"y{i}") for i in range(T)]
        allv = [True] * T
        assume2 = assume + [y != nd for y in ys]
        it.assume(*[y != nd for y in ys])
        wb2 = witness_sets(xs + ys, nd)
        use_nd = cfg["nodata"]
        if use_nd:
            px0 = [x if v else nd for x, v in zip(xs, valid)]
            px1 = list(ys)
            dt = "int16"
        else:
            px0 = [z3.ToReal(x) if v else V.NAN for x, v in zip(xs, valid)]
            px1 = [z3.ToReal(y) for y in ys]
            dt = "float32"
            it.narrow = {}
        if kind == "yxt":
            fn = it.get_function("hdc.algo.ops.autocorr", "autocorr")
            arr = it.new_array(st, (1, 2, T), dt, cells=px0 + px1)
        else:
            fn = it.get_function("hdc.algo.ops.autocorr", "autocorr_tyx")
            cells = []
            for t in range(T):
                cells += [px0[t], px1[t]]
            arr = it.new_array(st, (T, 1, 2), dt, cells=cells)
        arr.readonly = True
        res = it.call_function(st, fn, [arr, nd] if use_nd else [arr])
        w.res.encoded.update(it.encoded)
        if not hasattr(res, "positions") or res.shape != (1, 2):
            raise Unsupported(f"{kind}: result is not a (1,2) array")
        cells = [st.heap[res.bufid][p] for p in res.positions()]

        def conc2(m, kind=kind):
            return {"kind": kind, "data": [C.model_value(m, x) if v else None for x, v in zip(xs, valid)],
                    "data2": [C.model_value(m, y) for y in ys], "nodata": C.model_value(m, nd) if use_nd else None}
        conc_ob = conc2
        check_result(w, f"{fn.name}[px0]", cells[0], xs, valid, assume2, conc2, wb2)
        check_result(w, f"{fn.name}[px1]", cells[1], ys, allv, assume2, conc2, wb2)
    lim = 1 << 24
    conc = conc_ob or conc
    for ob in it.obligations:
        if ob.kind == "narrow-arithmetic":
            # single-precision inputs are integers a float32 holds exactly; the claim is that the operation loses nothing
            rng = [z3.And(v >= -lim, v <= lim) for v in xs + (ys if kind in ("yxt", "tyx") else [])]
            w.discharge(f"{kind}.{ob.kind}@{ob.where}", assume + rng, ob.claim, guard=ob.guard, concretize=conc,
                        first_timeout_ms=5000)
            continue
        w.discharge(f"{kind}.{ob.kind}@{ob.where}", assume, ob.claim, guard=ob.guard, concretize=conc, witness_bounds=wb,
                    first_timeout_ms=2000)
    w.vacuity(f"{kind}.assumptions", assume)


def patterns(T, tier):
    pats = [p for p in itertools.product([True, False], repeat=T)]
    return [list(p) for p in pats]


def configs(tier):
    cf = []
    tmax = 6 if tier == "quick" else 8
    for T in range(3, tmax + 1):
        for p in patterns(T, tier):
            cf.append({"kind": "int1d", "valid": p})
            if T <= (5 if tier == "quick" else 7):
                cf.append({"kind": "float1d", "valid": p})
                if T <= 5:
                    cf.append({"kind": "float1d32", "valid": p})
    # structured longer patterns: contiguous outages, leading / trailing gaps
    for T in ((9, 10) if tier == "quick" else (9, 10, 11, 12)):
        seen = set()
        for start in range(T):
            for ln in range(0, T - start + 1):
                p = tuple(not (start <= i < start + ln) for i in range(T))
                if p not in seen:
                    seen.add(p)
                    cf.append({"kind": "int1d", "valid": list(p)})
    for T in (3, 4, 5):
        for p in patterns(T, tier):
            if sum(p) >= T - 2:
                for kind in ("yxt", "tyx"):
                    for use_nd in (True, False):
                        cf.append({"kind": kind, "valid": p, "nodata": use_nd})
    return cf


def validate(chk, seed):
    rnd = random.Random(seed)
    ts = [0.7, 0.4, 0.9, 0.3, 0.6, 0.1, 0.95, 0.2, 0.5, 0.8]
    cases = []
    for _ in range(20):
        T = rnd.randint(3, 12)
        nd = -3000
        cases.append(([rnd.choice([nd] + [rnd.randint(-200, 9000)] * 4) for _ in range(T)], nd))
    for data, nd in cases:
        it = C.new_interp(concrete=True)
        fn = it.get_function("hdc.algo.ops.autocorr", "autocorr_1d")
        st = State()
        a = it.new_array(st, (len(data),), "int16", cells=list(data))
        mine = it.call_function(st, fn, [a, nd])
        real = chk.replayer.call("call", fn="hdc.algo.ops.autocorr:autocorr_1d", args=[{"nd": data, "dtype": "int16"}, nd])["value"]
        chk.validate("autocorr_1d[int]", mine, real, tol=1e-9)
    for _ in range(10):
        T = rnd.randint(3, 12)
        data = [rnd.choice([float("nan")] + [rnd.uniform(-1, 1)] * 4) for _ in range(T)]
        it = C.new_interp(concrete=True)
        fn = it.get_function("hdc.algo.ops.autocorr", "autocorr_1d")
        st = State()
        a = it.new_array(st, (T,), "float64", cells=list(data))
        mine = it.call_function(st, fn, [a])
        real = chk.replayer.call("call", fn="hdc.algo.ops.autocorr:autocorr_1d",
                                 args=[{"nd": C.jsonable(data), "dtype": "float64"}])["value"]
        chk.validate("autocorr_1d[float]", mine, real, tol=1e-9)


def narrow_selftest():
    """Reachability twin of the single-precision tracking: a product of two values read from a float32 array must raise a
    narrow-arithmetic obligation, and none once one operand went through float64()."""
    it = C.new_interp(policy="poly")
    it.narrow = {}
    st = State()
    a = it.new_array(st, (2,), "float32", cells=[z3.ToReal(z3.Int("p")), z3.ToReal(z3.Int("q"))])
    x, y = it.read_cell(st, a, a.pos((0,))), it.read_cell(st, a, a.pos((1,)))
    it.scalar_binop(st, "Mult", x, y)
    n1 = sum(1 for ob in it.obligations if ob.kind == "narrow-arithmetic")
    from pysym import lib as L
    it.scalar_binop(st, "Mult", L.cast_scalar(it, st, L.DTYPES["float64"], x), y)
    n2 = sum(1 for ob in it.obligations if ob.kind == "narrow-arithmetic")
    if (n1, n2) != (1, 1):
        raise Unsupported(f"single-precision tracking self-test failed: {n1}, {n2}")


def replay_candidate(chk, c):
    r = chk.replayer.call("c15_autocorr", **c["input"])
    return bool(r["violates"]), r


def main(tier, seed, nproc=None):
    chk = C.Check(PID, tier, seed)
    chk.assumptions = ["values are integers (unbounded) - also on the float/NaN path, where they are fed as reals",
                       "sqrt / x**-0.5 kept symbolic (Ratio); floats are exact reals; float32 rounding of the output outside",
                       "float32 inputs: values read from a float32 array are tracked as single precision until float64(); an "
                       "Add/Sub/Mult between two such values is an obligation (result exactly representable, inputs |v| <= 2**24 integers)",
                       "the 1e-8 variance threshold is only checked through its branch logic on integer data"]
    chk.bounds = {"T": f"3..{6 if tier == 'quick' else 8} every gap pattern; 9..{10 if tier == 'quick' else 12} contiguous outages",
                  "entry points": "autocorr_1d (int/nodata and float/NaN), autocorr (y,x,t), autocorr_tyx; 2 pixels"}
    chk.outside = ["|r| <= 1 as an inequality (corollary of the identity)", "float32 output rounding", "series longer than the bound",
                   "the xarray accessor's layout dispatch"]
    validate(chk, seed)
    narrow_selftest()
    chk.run(worker, configs(tier), nproc)
    chk.confirm(lambda c: replay_candidate(chk, c))
    return chk.finish(
        rule="per entry point and gap pattern: squared Pearson identity, sign identity, radicand positivity and zero-result "
             "justification per return path; non-trivial = >= 1 free variable; distinct by goal hash",
        explanation="kernel sums are integer polynomials per gap pattern; z3 decides the polynomial identities with the mean-filled "
                    "Pearson definition (unbounded integers); non-identities are witnessed inside small value bounds and replayed")


def replay(path):
    chk = C.Check(PID, "quick", 0)
    c = json.load(open(path))
    ok, detail = replay_candidate(chk, c)
    chk.replayer.close()
    print(json.dumps(detail, default=str)[:2000])
    if ok:
        print(f"VIOLATION property={PID} replay={path}")
        return 1
    return 0


# ---------------------------------------------------------------- accessor level (layout dispatch, nodata resolution)
from pysym.interp import Instance  # noqa: E402
from pysym.lib import native, NativeBound  # noqa: E402
from . import xr_stubs as X  # noqa: E402


class CubeDA:
    """DataArray contract for PixelAlgorithms.autocorr: attrs, dims, .data (numpy block), coords, not dask-backed."""

    def __init__(self, arr, dims, attrs):
        self.arr, self.dims, self.attrs = arr, tuple(dims), attrs

    def pysym_getattr(self, it, st, attr):
        if attr == "attrs":
            return self.attrs
        if attr == "dims":
            return self.dims
        if attr == "data":
            return self.arr
        if attr == "coords":
            return {}
        if attr == "chunks":
            return None
        raise Unsupported(f"DataArray.{attr}")


class ResultDA:
    def __init__(self, data, dims, coords):
        self.data, self.dims, self.coords = data, dims, coords


def w_accessor(w, cfg):
    C.SOM["on"] = True
    valid, layout, has_nd = cfg["valid"], cfg["layout"], cfg["nodata"]
    T = len(valid)
    it = C.new_interp(policy="poly")
    it.A.ratio_mode = True
    xs = [z3.Int(f"x{i}") for i in range(T)]
    nd = z3.Int("nd")
    assume = [x != nd for x, v in zip(xs, valid) if v]
    it.assume(*assume)
    wb = witness_sets(xs, nd)
    wb = [[c for c in cs if "nd ==" not in str(c)] + [z3.And(nd >= -3, nd <= 3)] for cs in wb] + \
         [[c for c in cs if "nd ==" not in str(c)] + [nd == 0] for cs in wb[:2]]
    st = State()
    if has_nd:
        cells = [x if v else nd for x, v in zip(xs, valid)]
        dt, attrs = "int16", {"nodata": nd}
    else:
        cells = [z3.ToReal(x) if v else V.NAN for x, v in zip(xs, valid)]
        dt, attrs = "float32", {}
    if layout == "tyx":
        arr = it.new_array(st, (T, 1, 1), dt, cells=cells)
        dims = ("time", "y", "x")
    else:
        arr = it.new_array(st, (1, 1, T), dt, cells=cells)
        dims = ("y", "x", "time")
    da = CubeDA(arr, dims, attrs)
    cls = it.get_function("hdc.algo.accessors", "PixelAlgorithms")
    cls.link_bases(it)
    inst = Instance(cls)
    inst.fields["_obj"] = da

    @native
    def data_array(it, st, data=None, dims=None, coords=None, **kw):
        return ResultDA(data, dims, coords)

    @native
    def apply_ufunc(it, st, func, *args, input_core_dims=None, **kw):
        # (y, x, time) layout: core dim time is the last axis of the block; the kernel sees (Y, X, T)
        a0 = args[0]
        if not isinstance(a0, CubeDA) or list(input_core_dims[0]) != ["time"] or a0.dims[-1] != "time":
            raise Unsupported("apply_ufunc wiring for autocorr")
        if any(isinstance(a, V.Partial) for a in args[1:]):
            raise Unsupported("partial argument")
        return ResultDA(it.call_function(st, func, [a0.arr] + list(args[1:])), a0.dims[:-1], None)
    it.lib_overrides["xarray.DataArray"] = data_array
    it.lib_overrides["xarray.apply_ufunc"] = apply_ufunc
    it.lib_overrides["dask.is_dask_collection"] = native(lambda it, st, x: False)
    it.lib_overrides["warnings.warn"] = native(lambda it, st, *a, **k: None)
    it.lib_overrides["numpy.isnan"] = it.lib.LIB["numpy.isnan"]
    res = it.call_function(st, cls.methods["autocorr"], [inst])
    w.res.encoded.update(it.encoded)

    def conc(m):
        return {"kind": "accessor", "layout": layout, "data": [C.model_value(m, x) if v else None for x, v in zip(xs, valid)],
                "nodata": C.model_value(m, nd) if has_nd else None}
    if not isinstance(res, ResultDA) or not hasattr(res.data, "positions"):
        raise Unsupported("accessor result shape")
    w.discharge("accessor.dims", [], z3.BoolVal(tuple(res.dims) == ("y", "x")), concretize=conc)
    cell = st.heap[res.data.bufid][res.data.positions()[0]]
    check_result(w, f"accessor[{layout}]", cell, xs, valid, assume, conc, wb)


_worker_kernel = worker


def worker(w, cfg):  # noqa: F811
    if cfg["kind"] == "accessor":
        return w_accessor(w, cfg)
    return _worker_kernel(w, cfg)


_configs_kernel = configs


def configs(tier):  # noqa: F811
    cf = _configs_kernel(tier)
    for T in (3, 4, 5):
        for p in patterns(T, tier):
            if sum(p) >= T - 2:
                for layout in ("tyx", "yxt"):
                    for has_nd in (True, False):
                        cf.append({"kind": "accessor", "valid": p, "layout": layout, "nodata": has_nd})
    return cf
