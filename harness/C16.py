"""C16 - zonal mean is the exact mean and count of valid pixels per zone (DESIGN 5, C16)."""
import itertools
import json

import z3

from . import common as C
from pysym import vals as V
from pysym.interp import State, Choice
from pysym.vals import Unsupported, z_and, z_not

PID = "C16"
MAX_ZONE_PIXELS = 25_000_000
FP = {"float32": z3.Float32(), "float64": z3.Float64()}


def leaves(v, cond=True):
    if isinstance(v, Choice):
        yield from leaves(v.a, z_and(cond, v.cond))
        yield from leaves(v.b, z_and(cond, z_not(v.cond)))
    else:
        yield cond, v


def w_exact(w, cfg):
    """Small rasters, everything symbolic: pixels (int16 incl. nodata), zone ids in {0..nz-1} or z_nodata."""
    T, R, Cn, nz, dt = cfg["T"], cfg["R"], cfg["C"], cfg["nz"], cfg["dtype"]
    it = C.new_interp(policy="uf")
    it.prune_mode = "off"
    fn = it.get_function("hdc.algo.ops.zonal", "do_mean")
    st = State()
    px = [[[z3.Int(f"p{t}_{r}_{c}") for c in range(Cn)] for r in range(R)] for t in range(T)]
    zs = [[z3.Int(f"z{r}_{c}") for c in range(Cn)] for r in range(R)]
    nd, znd = z3.Int("nodata"), z3.Int("z_nodata")
    flat_p = [px[t][r][c] for t in range(T) for r in range(R) for c in range(Cn)]
    flat_z = [zs[r][c] for r in range(R) for c in range(Cn)]
    assume = [z3.And(p >= -32768, p <= 32767) for p in flat_p] + [nd >= -32768, nd <= 32767]
    assume += [z3.Or(z3.And(z >= 0, z < nz), z == znd) for z in flat_z] + [z3.Or(znd < 0, znd >= nz), znd >= 0, znd <= 255]
    it.assume(*assume)
    pixels = it.new_array(st, (T, R, Cn), "int16", cells=flat_p)
    zones = it.new_array(st, (R, Cn), "uint8", cells=flat_z)
    pixels.readonly = zones.readonly = True
    kwargs = {} if dt is None else {"out_dtype": it.lib.DTYPES[dt]}
    res = it.call_function(st, fn, [pixels, zones, nz, nd, znd], kwargs)
    w.res.encoded.update(it.encoded)
    lem = list(it.A.lemmas)

    def conc(m):
        return {"kind": "exact", "pixels": [[[C.model_value(m, px[t][r][c]) for c in range(Cn)] for r in range(R)] for t in range(T)],
                "zones": [[C.model_value(m, zs[r][c]) for c in range(Cn)] for r in range(R)], "nz": nz,
                "nodata": C.model_value(m, nd), "z_nodata": C.model_value(m, znd), "dtype": dt}
    if not hasattr(res, "positions") or res.shape != (T, nz, 2):
        raise Unsupported(f"do_mean returned shape {getattr(res, 'shape', None)}")
    want_dt = dt or "float32"
    w.discharge("do_mean.output_dtype", [], z3.BoolVal(res.dtype == want_dt), concretize=conc)
    for t in range(T):
        for k in range(nz):
            mean_cell = st.heap[res.bufid][res.pos((t, k, 0))]
            cnt_cell = st.heap[res.bufid][res.pos((t, k, 1))]
            member = [z3.And(zs[r][c] == k, px[t][r][c] != nd) for r in range(R) for c in range(Cn)]
            vals = [px[t][r][c] for r in range(R) for c in range(Cn)]
            cnt = z3.Sum([z3.If(m, 1, 0) for m in member])
            ssum = z3.Sum([z3.If(m, v, 0) for m, v in zip(member, vals)])
            w.discharge(f"do_mean.count[{t},{k}]", assume, V.to_real(cnt_cell) == z3.ToReal(cnt), lemmas=lem, concretize=conc)
            for cond, leaf in leaves(mean_cell):
                if V.is_nonfinite(leaf):
                    w.discharge(f"do_mean.nan_only_for_empty_zone[{t},{k}]", assume, cnt == 0, guard=cond, lemmas=lem,
                                concretize=conc)
                else:
                    # mean * count == sum (the division itself is an uninterpreted quotient q with q*d = n abstracted:
                    # compare numerator and denominator of the quotient term with the definition)
                    claim = quotient_matches(it, leaf, ssum, cnt)
                    w.discharge(f"do_mean.mean[{t},{k}]", assume, z3.And(cnt > 0, claim), guard=cond, lemmas=lem, concretize=conc,
                                sample=(t == 0 and k == 0))
    for ob in it.obligations:
        if ob.kind == "zero-division":
            continue   # guarded by the count test; covered by nan_only_for_empty_zone / mean
        w.discharge(f"do_mean.{ob.kind}@{ob.where}", assume, ob.claim, guard=ob.guard, lemmas=lem, concretize=conc)
    w.vacuity("do_mean.assumptions", assume)
    w.res.samples.append({"accumulation_dtypes": sorted(it.accum_log)}) if len(w.res.samples) < 3 else None


def quotient_matches(it, leaf, ssum, cnt):
    """leaf is expected to be divf(n, d): then n == sum and d == count; otherwise fall back to leaf * count == sum."""
    leaf = V.to_z3(leaf)
    if z3.is_app(leaf) and leaf.decl().name() == "divf":
        return z3.And(leaf.arg(0) == z3.ToReal(ssum), leaf.arg(1) == z3.ToReal(cnt))
    return V.to_real(leaf) * z3.ToReal(cnt) == z3.ToReal(ssum)


def w_accumulator(w, cfg):
    """IEEE single-step obligations in the dtype the kernel accumulates in (read off a symbolic run)."""
    it = C.new_interp(policy="uf")
    it.prune_mode = "off"
    fn = it.get_function("hdc.algo.ops.zonal", "do_mean")
    st = State()
    dt = cfg["dtype"]
    pixels = it.new_array(st, (1, 1, 2), "int16", cells=[z3.Int("a"), z3.Int("b")])
    zones = it.new_array(st, (1, 2), "uint8", cells=[0, 0])
    kwargs = {} if dt is None else {"out_dtype": it.lib.DTYPES[dt]}
    it.call_function(st, fn, [pixels, zones, 1, z3.Int("nd"), 255], kwargs)
    w.res.encoded.update(it.encoded)
    accs = sorted(d for d, op in it.accum_log if op == "Add")
    if not accs:
        raise Unsupported("do_mean: no accumulating store found")
    for acc in accs:
        if acc in FP:
            sort = FP[acc]
            rm = z3.RNE()
            # An IEEE addition is exact iff rounding toward +inf and toward -inf agree.
            def isint(x):
                return z3.fpEQ(z3.fpRoundToIntegral(z3.RNE(), x), x)

            def fpint(m, x):
                v = m.eval(z3.fpToReal(x), model_completion=True)
                return int(C.model_value(m, v))
            cf = z3.FP("cnt", sort)
            pre = [isint(cf), z3.fpGEQ(cf, z3.FPVal(0.0, sort)), z3.fpLEQ(cf, z3.FPVal(float(MAX_ZONE_PIXELS), sort))]
            one = z3.FPVal(1.0, sort)
            exact = z3.fpEQ(z3.fpAdd(z3.RTP(), cf, one), z3.fpAdd(z3.RTN(), cf, one))
            w.discharge(f"accumulator[{acc}].count_step_exact", pre, exact,
                        concretize=lambda m, acc=acc, cf=cf: {"kind": "count", "n": fpint(m, cf), "dtype": dt, "acc": acc}, sample=True)
            lim = MAX_ZONE_PIXELS * 32767
            sf, pf = z3.FP("s", sort), z3.FP("p", sort)
            pre2 = [isint(sf), isint(pf), z3.fpLEQ(z3.fpAbs(sf), z3.FPVal(float(lim), sort)),
                    z3.fpLEQ(z3.fpAbs(pf), z3.FPVal(32768.0, sort))]
            exact2 = z3.fpEQ(z3.fpAdd(z3.RTP(), sf, pf), z3.fpAdd(z3.RTN(), sf, pf))
            w.discharge(f"accumulator[{acc}].sum_step_exact", pre2, exact2,
                        concretize=lambda m, acc=acc, sf=sf, pf=pf: {"kind": "sum", "s": fpint(m, sf), "p": fpint(m, pf), "dtype": dt, "acc": acc})
        else:
            # integer accumulator: the running sum must fit
            from pysym.arr import INT_RANGES
            lo, hi = INT_RANGES[acc]
            s = z3.Int("s")
            lim = MAX_ZONE_PIXELS * 32767
            w.discharge(f"accumulator[{acc}].range", [s >= -lim, s <= lim], z3.And(s >= lo, s <= hi),
                        concretize=lambda m, acc=acc: {"kind": "sum", "s": C.model_value(m, s), "p": 0, "dtype": dt, "acc": acc})


class _ZDA:
    """DataArray contract for ZonalStatistics.mean: attrs (also as attributes), dims, coords, .data, where / notnull as identity
    for integer rasters (no NaN to replace)."""

    def __init__(self, data, dims, attrs):
        self.data, self.dims, self.attrs = data, tuple(dims), dict(attrs)

    def pysym_isinstance(self, t):
        from pysym.interp import LibRef
        return isinstance(t, LibRef) and t.name == "xarray.DataArray"

    def pysym_getattr(self, it, st, attr):
        from pysym.lib import native
        if attr in ("data", "dims", "attrs"):
            return getattr(self, attr)
        if attr == "coords":
            return {d: ("coord", d) for d in self.dims}
        if attr == "shape":
            return getattr(self.data, "shape", None) or tuple(2 for _ in self.dims)
        if attr == "dtype":
            return getattr(self.data, "dtype", None) or "uint8"
        if attr == "notnull":
            return native(lambda it_, st_: True)
        if attr == "where":
            return native(lambda it_, st_, cond, other=None: self)
        if attr in self.attrs:
            return self.attrs[attr]
        raise Unsupported(f"DataArray.{attr}")


def w_accessor(w, cfg):
    """ZonalStatistics.mean (in-memory path): do_mean receives the pixel cube and the zone raster with every value intact (whatever
    the zone raster's integer dtype: values and the zone nodata are solver variables over the dtype's whole range), the two nodata
    attributes, len(zone_ids) and the requested dtype."""
    from pysym.arr import INT_RANGES
    from pysym.interp import Instance, LibRef
    from pysym.lib import native
    zdt = cfg["zone_dtype"]
    lo, hi = INT_RANGES[zdt]
    it = C.new_interp(policy="exact")
    st = State()
    zs = [z3.Int(f"z{i}") for i in range(2)]
    znd, nd = z3.Int("z_nodata"), z3.Int("nodata")
    # documented contract of the zone raster: ids 0..n-1, everything else is the zone nodata value
    facts = [z3.And(z >= lo, z <= hi, z3.Or(z3.And(z >= 0, z < 2), z == znd)) for z in zs] + [znd >= lo, znd <= hi, nd >= -32768, nd <= 32767]
    it.assume(*facts)
    px = [z3.Int(f"p{i}") for i in range(2)]
    facts += [z3.And(p_ >= -32768, p_ <= 32767) for p_ in px]
    cube = it.new_array(st, (1, 1, 2), "int16", cells=list(px))
    zarr = it.new_array(st, (1, 2), zdt, cells=list(zs))
    xx = _ZDA(cube, ("time", "y", "x"), {"nodata": nd})
    zones = _ZDA(zarr, ("y", "x"), {"nodata": znd})
    calls = []

    def fake_do_mean(interp, st_, args, kwargs):
        calls.append((args, kwargs, V.z_and(*st_.pc)))
        return interp.new_array(st_, (1, 2, 2), "float32", fill=0)
    it.overrides["do_mean"] = fake_do_mean
    it.lib_overrides["dask.is_dask_collection"] = native(lambda it_, st_, x: False)
    it.lib_overrides["xarray.DataArray"] = native(lambda it_, st_, data=None, **kw: ("DataArray", data, kw))
    cls = it.get_function("hdc.algo.accessors", "ZonalStatistics")
    cls.link_bases(it)
    inst = Instance(cls)
    inst.fields["_obj"] = xx
    it.call_function(st, cls.methods["mean"], [inst, zones, [0, 1]], {})
    w.res.encoded.update(it.encoded)

    def conc(m):
        return {"kind": "accessor", "zone_dtype": zdt, "zones": [[C.model_value(m, z) for z in zs]], "z_nodata": C.model_value(m, znd),
                "pixels": [[[C.model_value(m, p_) for p_ in px]]], "nodata": C.model_value(m, nd), "nz": 2}
    tag = f"zonal.mean[zones {zdt}]"
    w.discharge(f"{tag}.kernel_called_once", facts, z3.BoolVal(len(calls) == 1), concretize=conc)
    for args, kwargs, g in calls:
        ok_shape = len(args) >= 5 and hasattr(args[0], "positions") and hasattr(args[1], "positions") and args[1].shape == (1, 2)
        w.discharge(f"{tag}.arguments", facts, z3.BoolVal(bool(ok_shape)), guard=g, concretize=conc)
        if not ok_shape:
            continue
        zv = it.arr_values(st, args[1])
        pv = it.arr_values(st, args[0])
        w.discharge(f"{tag}.zone_raster_values_intact", facts, z3.And(*[V.to_z3(a) == b for a, b in zip(zv, zs)]), guard=g, concretize=conc,
                    sample=True)
        w.discharge(f"{tag}.zone_nodata_still_marks_the_same_cells", facts,
                    z3.And(*[(V.to_z3(a) == V.to_z3(args[4])) == (b == znd) for a, b in zip(zv, zs)]), guard=g, concretize=conc)
        w.discharge(f"{tag}.pixels_intact", facts, z3.And(*[V.to_z3(a) == b for a, b in zip(pv, px)]), guard=g, concretize=conc)
        w.discharge(f"{tag}.scalars", facts, z3.And(V.to_z3(args[2]) == 2, V.to_z3(args[3]) == nd, V.to_z3(args[4]) == znd), guard=g, concretize=conc)
    for ob in it.obligations:
        w.discharge(f"{tag}.{ob.kind}@{ob.where}", facts, ob.claim, guard=ob.guard, concretize=conc)


class _DaskData:
    """dask array behind a lazy DataArray: identity (what tokenize hashes) and chunks."""

    def __init__(self, ident, chunks):
        self.ident, self.chunks = ident, chunks

    def pysym_getattr(self, it, st, attr):
        if attr == "chunks":
            return self.chunks
        if attr == "shape":
            return tuple(sum(c) for c in self.chunks)
        if attr == "dtype":
            return "uint8" if self.ident.startswith("zones") else "int16"
        raise Unsupported(f"dask array.{attr}")


def w_dask_name(w, cfg):
    """ZonalStatistics.mean on a dask-backed cube with an explicit name: the graph layer name must separate every pair of calls that can
    give different results - `tokenize` is an injective function of the identities it is given (its contract), so two calls that differ in
    the zone raster, the cube or the dtype must get different names (two layers with one name in one graph silently share blocks)."""
    from pysym.interp import Instance
    from pysym.lib import native

    def run(vary):
        it = C.new_interp(policy="exact")
        st = State()
        xx = _ZDA(_DaskData("cube-B" if vary == "cube" else "cube-A", ((1, 1), (2,), (2,))), ("time", "y", "x"), {"nodata": -9999})
        zones = _ZDA(_DaskData("zones-B" if vary == "zones" else "zones-A", ((2,), (2,))), ("y", "x"), {"nodata": 255})
        calls = []

        @native
        def tokenize(it_, st_, *args, **kw):
            return "tok(" + ",".join(a.ident if isinstance(a, _DaskData) else (getattr(a, "dtype_name", None) or getattr(a, "__name__", None) or str(a))
                                     for a in args) + ")"

        @native
        def map_blocks(it_, st_, func, *args, **kw):
            calls.append((getattr(func, "name", None), args, kw))
            return ("lazy",)
        it.lib_overrides["dask.base.tokenize"] = tokenize
        it.lib_overrides["dask.array.map_blocks"] = map_blocks
        it.lib_overrides["dask.is_dask_collection"] = native(lambda it_, st_, x: True)
        it.lib_overrides["xarray.DataArray"] = native(lambda it_, st_, data=None, **kw: ("DataArray", data, kw))
        cls = it.get_function("hdc.algo.accessors", "ZonalStatistics")
        cls.link_bases(it)
        inst = Instance(cls)
        inst.fields["_obj"] = xx
        it.call_function(st, cls.methods["mean"], [inst, zones, [0, 1]], {"name": "zm", "dtype": "float64" if vary == "dtype" else "float32"})
        w.res.encoded.update(it.encoded)
        return calls, xx, zones
    base, xx0, z0 = run(None)

    def conc(m, what="zones"):
        return {"kind": "dask_names", "vary": what}
    ok = len(base) == 1
    if ok:
        fname, args, kw = base[0]
        ok = (fname == "do_mean" and len(args) >= 5 and args[0] is xx0.data and args[1] is z0.data and args[2] == 2 and args[3] == -9999 and args[4] == 255
              and list(kw.get("drop_axis", [])) == [1, 2] and list(kw.get("new_axis", [])) == [1, 2]
              and [tuple(c) for c in kw.get("chunks", [])] == [(1, 1), (2,), (2,)])
    w.discharge("zonal.mean[dask].block_call_wiring", [], z3.BoolVal(bool(ok)), concretize=lambda m: conc(m, "wiring"))
    n0 = base[0][2].get("name") if base else None
    for vary in ("zones", "cube", "dtype"):
        other, _, _ = run(vary)
        n1 = other[0][2].get("name") if other else None
        distinct = isinstance(n0, str) and isinstance(n1, str) and n0 != n1
        w.discharge(f"zonal.mean[dask].layer_name_separates_calls_with_another_{vary}", [], z3.BoolVal(bool(distinct)),
                    concretize=lambda m, vary=vary: conc(m, vary))


def worker(w, cfg):
    {"exact": w_exact, "acc": w_accumulator, "accessor": w_accessor, "dask_name": w_dask_name}[cfg["kind"]](w, cfg)


def configs(tier):
    cf = []
    shapes = [(1, 1, 1), (1, 1, 2), (1, 2, 2), (2, 1, 2), (1, 2, 3)] if tier == "quick" else \
        [(1, 1, 1), (1, 1, 2), (1, 2, 2), (2, 1, 2), (1, 2, 3), (2, 2, 3), (1, 3, 3)]
    for (T, R, Cn) in shapes:
        for nz in (1, 2, 3):
            for dt in (None, "float64"):
                if dt == "float64" and (T, R, Cn) not in [(1, 1, 2), (1, 2, 2)]:
                    continue
                cf.append({"kind": "exact", "T": T, "R": R, "C": Cn, "nz": nz, "dtype": dt})
    cf.append({"kind": "acc", "dtype": None})
    cf.append({"kind": "acc", "dtype": "float64"})
    for zdt in ("uint8", "int16", "uint16", "int32", "uint32", "int64"):
        cf.append({"kind": "accessor", "zone_dtype": zdt})
    cf.append({"kind": "dask_name"})
    return cf


def validate(chk, seed):
    import random
    rnd = random.Random(seed)
    for _ in range(20):
        T, R, Cn, nz = rnd.randint(1, 2), rnd.randint(1, 3), rnd.randint(1, 3), rnd.randint(1, 3)
        nd, znd = -9999, 255
        px = [[[rnd.choice([nd, rnd.randint(-100, 100)]) for _ in range(Cn)] for _ in range(R)] for _ in range(T)]
        zs = [[rnd.choice([znd] + list(range(nz))) for _ in range(Cn)] for _ in range(R)]
        it = C.new_interp(concrete=True)
        fn = it.get_function("hdc.algo.ops.zonal", "do_mean")
        st = State()
        a = it.new_array(st, (T, R, Cn), "int16", cells=[v for t in px for r in t for v in r])
        z = it.new_array(st, (R, Cn), "uint8", cells=[v for r in zs for v in r])
        res = it.call_function(st, fn, [a, z, nz, nd, znd])
        mine = it.arr_values(st, res)
        real = chk.replayer.call("call", fn="hdc.algo.ops.zonal:do_mean",
                                 args=[{"nd": px, "dtype": "int16"}, {"nd": zs, "dtype": "uint8"}, nz, nd, znd])["value"]
        flat = [v for t in real for k in t for v in k]
        chk.validate("do_mean", mine, flat, tol=1e-6)


def replay_candidate(chk, c):
    if c["input"].get("kind") == "dask_names":
        r = chk.replayer.call("c16_dask_names", vary=c["input"]["vary"])
        return bool(r["violates"]), r
    if c["input"].get("kind") == "accessor":
        try:
            r = chk.replayer.call("c16_accessor", **{k: v for k, v in c["input"].items() if k != "kind"})
        except C.HarnessError as e:
            if "died" not in str(e):
                raise
            # the process running the real accessor on the witness was killed (SIGSEGV: a zone id outside the accumulator arrays
            # reaches the unchecked compiled kernel) - that is the violation, reproduced
            chk.replayer.close()
            return True, {"violates": True, "why": "the interpreter running zonal.mean on this input crashed (out-of-range zone index in compiled code)"}
        return bool(r["violates"]), r
    r = chk.replayer.call("c16_do_mean", **c["input"])
    return bool(r["violates"]), r


def main(tier, seed, nproc=None):
    chk = C.Check(PID, tier, seed)
    chk.assumptions = ["int16 pixels; zone ids within 0..n-1 or equal to the zone nodata (documented contract)",
                       "division modelled as an uninterpreted quotient whose numerator/denominator are compared with the definition",
                       f"accumulator obligations: zones of up to {MAX_ZONE_PIXELS} pixels, IEEE-754 single steps in z3's FP theory"]
    chk.bounds = {"rasters": "T x R x C up to 1x2x3 / 2x1x2 (quick), 2x2x3 / 1x3x3 (thorough); 1..3 zones; all pixel / zone / nodata values symbolic",
                  "accumulator": f"count <= {MAX_ZONE_PIXELS}, |partial sum| <= {MAX_ZONE_PIXELS}*32767"}
    chk.outside = ["float-valued pixels' accumulated rounding", "the dask path / graph keys", "NaN -> nodata substitution in the accessor"]
    validate(chk, seed)
    chk.run(worker, configs(tier), nproc)
    chk.confirm(lambda c: replay_candidate(chk, c))
    return chk.finish(
        rule="per raster shape / zone count: count and mean per (time, zone) cell, NaN only for empty zones; per accumulator dtype: "
             "exactness of one counter step and one sum step; non-trivial = >= 1 free variable; distinct by goal hash",
        explanation="do_mean executed symbolically with symbolic zone indices (ite-scatter); accumulator dtype read off the run and "
                    "checked with z3 floating-point single-step queries")


def replay(path):
    chk = C.Check(PID, "quick", 0)
    c = json.load(open(path))
    ok, detail = replay_candidate(chk, c)
    chk.replayer.close()
    print(json.dumps(detail, default=str)[:2000])
    if ok:
        print(f"VIOLATION property={PID} replay={path}")
        return 1
    return 0
