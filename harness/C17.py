"""C17 - rolling sum and grouped mean reduce exactly the valid cells (DESIGN 5, C17)."""
import itertools
import json

import z3

from . import common as C
from pysym import vals as V
from pysym.interp import State
from pysym.vals import z_and, z_or, z_not

PID = "C17"


# ---------------------------------------------------------------- symbolic workers
def w_rolling(w, cfg):
    """All int16 series of length n (every cell may equal nodata), nodata symbolic, window concrete."""
    n, win = cfg["n"], cfg["window"]
    it = C.new_interp(policy="exact")
    fn = it.get_function("hdc.algo.ops.stats", "rolling_sum")
    st = State()
    xs = [z3.Int(f"x{i}") for i in range(n)]
    nd = z3.Int("nodata")
    assume = [z3.And(x >= -32768, x <= 32767) for x in xs] + [nd >= -32768, nd <= 32767]
    it.assume(*assume)
    xx = it.new_array(st, (n,), "int16", cells=xs)
    xx.readonly = True
    yy = C.make_out(it, st, (n,), "float32", "yy")
    it.call_function(st, fn, [xx, win, z3.ToReal(nd), yy])
    w.res.encoded.update(it.encoded)
    out, written = C.out_values(it, st, yy)
    ndr = z3.ToReal(nd)

    def conc(m):
        return {"kind": "rolling", "xx": [C.model_value(m, x) for x in xs], "nodata": C.model_value(m, nd), "window": win}

    for ii in range(n):
        w.discharge(f"rolling_sum.written[{ii}]", assume, written[ii], concretize=conc)
        if ii < win - 1:
            w.discharge(f"rolling_sum.incomplete[{ii}]", assume, out[ii] == ndr, concretize=conc, sample=(ii == 0))
            continue
        cells = xs[ii - win + 1: ii + 1]
        valid = [c != nd for c in cells]
        vsum = z3.ToReal(z3.Sum([z3.If(v, c, 0) for v, c in zip(valid, cells)])) if cells else 0
        allv, nov = z3.And(*valid), z3.Not(z3.Or(*valid))
        claim = z3.If(allv, out[ii] == vsum, z3.If(nov, out[ii] == ndr, z3.Or(out[ii] == ndr, out[ii] == vsum)))
        w.discharge(f"rolling_sum.value[{ii}]", assume, claim, concretize=conc, sample=(ii == n - 1))
        # data flow: the term computed for this window mentions only the window's own cells (and nodata). A value carried over from
        # earlier cells (running sums: add the entering cell, subtract the leaving one) is the same number in exact arithmetic but
        # not in floating point, where a large cell that has left the window keeps absorbing the small ones
        names = {str(c) for c in cells} | {"nodata"}
        outside = sorted(str(v) for v in C.free_vars(V.to_z3(out[ii])) if str(v) not in names)
        w.discharge(f"rolling_sum.window_depends_only_on_its_own_cells[{ii}]", assume, z3.BoolVal(not outside),
                    concretize=lambda m, ii=ii, outside=outside: {"kind": "rolling_absorb", "window": win, "n": n, "position": ii, "flows_from": outside})
    for ob in it.obligations:
        w.discharge(f"rolling_sum.{ob.kind}@{ob.where}", assume, ob.claim, guard=ob.guard, concretize=conc)
    w.vacuity("rolling_sum.assumptions", assume)


def w_rolling_pair(w, cfg):
    """2-run: same data, same missing cells, two different nodata values."""
    n, win = cfg["n"], cfg["window"]
    it = C.new_interp(policy="exact")
    fn = it.get_function("hdc.algo.ops.stats", "rolling_sum")
    vs = [z3.Int(f"v{i}") for i in range(n)]
    ms = [z3.Bool(f"miss{i}") for i in range(n)]
    nd1, nd2 = z3.Int("nd1"), z3.Int("nd2")
    assume = [z3.And(x >= -32768, x <= 32767, x != nd1, x != nd2) for x in vs]
    assume += [nd1 >= -32768, nd1 <= 32767, nd2 >= -32768, nd2 <= 32767]
    it.assume(*assume)
    outs = []
    for nd in (nd1, nd2):
        st = State()
        xx = it.new_array(st, (n,), "int16", cells=[z3.If(m, nd, v) for m, v in zip(ms, vs)])
        yy = C.make_out(it, st, (n,), "float32", "yy")
        it.call_function(st, fn, [xx, win, z3.ToReal(nd), yy])
        outs.append(C.out_values(it, st, yy)[0])
    w.res.encoded.update(it.encoded)

    def conc(m):
        return {"kind": "rolling_pair", "vals": [C.model_value(m, x) for x in vs], "miss": [C.model_value(m, b) for b in ms],
                "nd1": C.model_value(m, nd1), "nd2": C.model_value(m, nd2), "window": win}
    for ii in range(n):
        a, b = outs[0][ii], outs[1][ii]
        claim = z3.Or(z3.And(a == z3.ToReal(nd1), b == z3.ToReal(nd2)), a == b)
        w.discharge(f"rolling_sum.nodata_independent[{ii}]", assume, claim, concretize=conc)


def w_mean_grp(w, cfg):
    """mean_grp: labeling and missing pattern are configuration, values and nodata symbolic."""
    groups, miss = cfg["groups"], cfg["miss"]
    n = len(groups)
    ng = max(groups) + 1
    it = C.new_interp(policy="exact")
    fn = it.get_function("hdc.algo.ops.stats", "mean_grp")
    st = State()
    xs = [z3.Int(f"x{i}") for i in range(n)]
    nd = z3.Int("nodata")
    assume = [z3.And(x >= -32768, x <= 32767, x != nd) for x in xs] + [nd >= -32768, nd <= 32767]
    it.assume(*assume)
    cells = [nd if m else x for m, x in zip(miss, xs)]
    xx = it.new_array(st, (n,), "int16", cells=cells)
    xx.readonly = True
    gg = it.new_array(st, (n,), "int16", cells=list(groups))
    yy = C.make_out(it, st, (n,), "float32", "yy")
    it.call_function(st, fn, [xx, gg, ng, z3.ToReal(nd), yy])
    w.res.encoded.update(it.encoded)
    out, written = C.out_values(it, st, yy)

    def conc(m):
        return {"kind": "mean_grp", "xx": [C.model_value(m, c) for c in cells], "nodata": C.model_value(m, nd),
                "groups": list(groups)}
    for i in range(n):
        mem = [xs[j] for j in range(n) if groups[j] == groups[i] and not miss[j]]
        exp = z3.ToReal(z3.Sum(mem)) / len(mem) if mem else z3.ToReal(nd)
        w.discharge(f"mean_grp.written[{i}]", assume, written[i], concretize=conc)
        w.discharge(f"mean_grp.value[{i}]", assume, V.to_real(out[i]) == exp, concretize=conc, sample=(i == 0))
    for ob in it.obligations:
        w.discharge(f"mean_grp.{ob.kind}@{ob.where}", assume, ob.claim, guard=ob.guard, concretize=conc)
    w.vacuity("mean_grp.assumptions", assume)


def w_accessor(w, cfg):
    """RollingWindowAlgos.sum / PixelAlgorithms.mean_grp over xarray contracts: nodata resolution, dtype handed to the kernel,
    trimming of the first window-1 positions. Input dtype is configuration (int16 / int32 / int64), values and nodata symbolic
    over the whole range of that dtype - a conversion to float32 before the kernel would no longer be exact."""
    from . import xr_stubs as X
    from pysym.interp import Instance
    from pysym.arr import INT_RANGES
    n, win, dt, which = cfg["n"], cfg["window"], cfg["dtype"], cfg["which"]
    lo, hi = INT_RANGES[dt]
    it = C.new_interp(policy="exact" if which == "rolling" else "poly")
    st = State()
    xs = [z3.Int(f"x{i}") for i in range(n)]
    nd = z3.Int("nodata")
    assume = [z3.And(x >= lo, x <= hi) for x in xs] + [nd >= lo, nd <= hi]
    nd_attr = z3.Int("nodata_attr")      # "both": the array carries another nodata attribute - the explicit argument wins
    if cfg["nodata_from"] == "both":
        assume += [nd_attr >= lo, nd_attr <= hi]
    it.assume(*assume)
    attrs = {"nodata": nd} if cfg["nodata_from"] == "attrs" else ({"nodata": nd_attr} if cfg["nodata_from"] == "both" else {})
    da = X.StubDA(xs, ("time",), list(range(n)), dtype=dt, attrs=attrs)
    rec = []
    it.lib_overrides["xarray.apply_ufunc"] = X.make_apply_ufunc(C.make_out, rec)

    def conc(m):
        return {"kind": "accessor", "which": which, "xx": [C.model_value(m, x) for x in xs], "nodata": C.model_value(m, nd), "window": win,
                "dtype": dt, "nodata_from": cfg["nodata_from"], "groups": cfg.get("groups"),
                "attr_nodata": C.model_value(m, nd_attr) if cfg["nodata_from"] == "both" else None}
    if which == "rolling":
        cls = it.get_function("hdc.algo.accessors", "RollingWindowAlgos")
        cls.link_bases(it)
        inst = Instance(cls)
        inst.fields["_obj"] = da
        kw = {"window_size": win}
        if cfg["nodata_from"] in ("arg", "both"):
            kw["nodata"] = nd
        res = it.call_function(st, cls.methods["sum"], [inst], kw)
        w.res.encoded.update(it.encoded)
        lem = list(it.A.lemmas)
        if not isinstance(res, X.StubDA):
            raise V.Unsupported("rolling.sum did not return a DataArray")
        w.discharge("rolling.sum.trimmed_length", [], z3.BoolVal(len(res.vals) == n - win + 1), concretize=conc)
        if len(res.vals) != n - win + 1:
            return
        ndr = z3.ToReal(nd)
        for k, cell in enumerate(res.vals):
            ii = k + win - 1
            if isinstance(cell, V.Partial):
                w.discharge(f"rolling.sum.written[{ii}]", assume, cell.defined, lemmas=lem, concretize=conc)
                cell = cell.value
            cells = xs[ii - win + 1: ii + 1]
            valid = [c != nd for c in cells]
            vsum = z3.ToReal(z3.Sum([z3.If(v, c, 0) for v, c in zip(valid, cells)]))
            allv, nov = z3.And(*valid), z3.Not(z3.Or(*valid))
            o = V.to_real(cell)
            claim = z3.If(allv, o == vsum, z3.If(nov, o == ndr, z3.Or(o == ndr, o == vsum)))
            w.discharge(f"rolling.sum.value[{ii}]", assume, claim, lemmas=lem, concretize=conc, sample=(k == 0))
    else:
        groups = cfg["groups"]
        cls = it.get_function("hdc.algo.accessors", "PixelAlgorithms")
        cls.link_bases(it)
        inst = Instance(cls)
        inst.fields["_obj"] = da
        garr = it.new_array(st, (n,), "int16", cells=list(groups))
        kw = {"groups": garr}
        if cfg["nodata_from"] in ("arg", "both"):
            kw["nodata"] = nd
        res = it.call_function(st, cls.methods["mean_grp"], [inst], kw)
        w.res.encoded.update(it.encoded)
        lem = list(it.A.lemmas)
        for i, cell in enumerate(res.vals):
            if isinstance(cell, V.Partial):
                cell = cell.value
            mem = [j for j in range(n) if groups[j] == groups[i]]
            cnt = z3.Sum([z3.If(xs[j] != nd, 1, 0) for j in mem])
            ssum = z3.Sum([z3.If(xs[j] != nd, xs[j], 0) for j in mem])
            o = V.to_real(cell)
            claim = z3.If(cnt == 0, o == z3.ToReal(nd), o * z3.ToReal(cnt) == z3.ToReal(ssum))
            w.discharge(f"mean_grp_accessor.value[{i}]", assume, claim, lemmas=lem, concretize=conc)


def worker(w, cfg):
    {"rolling": w_rolling, "rolling_pair": w_rolling_pair, "mean_grp": w_mean_grp, "accessor": w_accessor}[cfg["kind"]](w, cfg)


# ---------------------------------------------------------------- configurations
def labelings(n, kmax):
    """All surjective labelings of n steps onto 0..k-1 (k <= kmax), every group id used."""
    out = []
    for k in range(1, kmax + 1):
        for lab in itertools.product(range(k), repeat=n):
            if len(set(lab)) == k:
                out.append(list(lab))
    return out


def configs(tier):
    cf = []
    nmax = 6 if tier == "quick" else 8
    for n in range(1, nmax + 1):
        for win in range(1, n + 1):
            cf.append({"kind": "rolling", "n": n, "window": win})
            if n >= 2:
                cf.append({"kind": "rolling_pair", "n": n, "window": win})
    gmax_n = 4 if tier == "quick" else 5
    for n in range(1, gmax_n + 1):
        for lab in labelings(n, 3):
            for miss in itertools.product([False, True], repeat=n):
                cf.append({"kind": "mean_grp", "groups": lab, "miss": list(miss)})
    for dt in ("int16", "int32", "int64"):
        for n, win in ((3, 2), (4, 3), (3, 1), (3, 3)):
            for src in ("attrs", "arg") + (("both",) if dt == "int16" else ()):
                cf.append({"kind": "accessor", "which": "rolling", "n": n, "window": win, "dtype": dt, "nodata_from": src})
    for dt in ("int16", "int32"):
        for groups in ([0, 0, 1], [0, 1, 0, 1]):
            cf.append({"kind": "accessor", "which": "mean_grp", "n": len(groups), "window": 1, "dtype": dt, "nodata_from": "attrs", "groups": groups})
            if dt == "int16":
                cf.append({"kind": "accessor", "which": "mean_grp", "n": len(groups), "window": 1, "dtype": dt, "nodata_from": "both", "groups": groups})
                cf.append({"kind": "accessor", "which": "mean_grp", "n": len(groups), "window": 1, "dtype": dt, "nodata_from": "arg", "groups": groups})
    return cf


# ---------------------------------------------------------------- translator validation
def validate(chk, seed):
    import random
    rnd = random.Random(seed)
    cases = [([0, 1, 2, 3, 4, 5, 6, 7, 8, 9], 3, 0)]
    for _ in range(20):
        n = rnd.randint(1, 8)
        nd = rnd.choice([-9999, 0, 7])
        xx = [rnd.choice([nd, rnd.randint(-50, 50)]) for _ in range(n)]
        cases.append((xx, rnd.randint(1, n), nd))
    for xx, win, nd in cases:
        it = C.new_interp(concrete=True)
        fn = it.get_function("hdc.algo.ops.stats", "rolling_sum")
        st = State()
        a = it.new_array(st, (len(xx),), "int16", cells=list(xx))
        yy = C.make_out(it, st, (len(xx),), "float32")
        it.call_function(st, fn, [a, win, float(nd), yy])
        mine = C.out_values(it, st, yy)[0]
        real = chk.replayer.call("call", fn="hdc.algo.ops.stats:rolling_sum",
                                 args=[{"nd": xx, "dtype": "int16"}, win, nd])["value"]
        chk.validate("rolling_sum", mine, real)
    for _ in range(20):
        n = rnd.randint(1, 7)
        k = rnd.randint(1, min(3, n))
        groups = list(range(k)) + [rnd.randrange(k) for _ in range(n - k)]
        rnd.shuffle(groups)
        nd = rnd.choice([-9999, 0])
        xx = [rnd.choice([nd, rnd.randint(-50, 50)]) for _ in range(n)]
        it = C.new_interp(concrete=True)
        fn = it.get_function("hdc.algo.ops.stats", "mean_grp")
        st = State()
        a = it.new_array(st, (n,), "int16", cells=list(xx))
        g = it.new_array(st, (n,), "int16", cells=list(groups))
        yy = C.make_out(it, st, (n,), "float32")
        it.call_function(st, fn, [a, g, k, float(nd), yy])
        mine = C.out_values(it, st, yy)[0]
        real = chk.replayer.call("call", fn="hdc.algo.ops.stats:mean_grp",
                                 args=[{"nd": xx, "dtype": "int16"}, {"nd": groups, "dtype": "int16"}, k, nd])["value"]
        chk.validate("mean_grp", mine, real, tol=1e-6)


# ---------------------------------------------------------------- replay
def replay_candidate(chk, c):
    inp = c["input"]
    k = inp["kind"]
    if k == "rolling":
        r = chk.replayer.call("c17_rolling", xx=inp["xx"], window=inp["window"], nodata=inp["nodata"])
    elif k == "rolling_pair":
        r = chk.replayer.call("c17_rolling_pair", vals=inp["vals"], miss=inp["miss"], window=inp["window"],
                              nd1=inp["nd1"], nd2=inp["nd2"])
    elif k == "rolling_absorb":
        r = chk.replayer.call("c17_rolling_absorb", window=inp["window"], n=inp["n"])
    elif k == "accessor":
        r = chk.replayer.call("c17_accessor", **{a: b for a, b in inp.items() if a != "kind"})
    else:
        r = chk.replayer.call("c17_mean_grp", xx=inp["xx"], groups=inp["groups"], nodata=inp["nodata"])
    return bool(r["violates"]), r


def main(tier, seed, nproc=None):
    chk = C.Check(PID, tier, seed)
    chk.assumptions = [
        "int16 data and an int16-representable nodata value (|v| <= 32767); larger dtypes / float32 rounding of sentinels "
        "above 2**24 are outside this encoding",
        "floats are exact reals (float32 output: sums of <= 8 int16 values are exact in float32)",
        "gufunc output buffer is arbitrary uninitialised memory",
    ]
    chk.bounds = {"rolling_sum": f"n <= {6 if tier == 'quick' else 8}, every window 1..n, all int16 series (symbolic)",
                  "mean_grp": f"n <= {4 if tier == 'quick' else 5}, every surjective labeling with <= 3 groups, every "
                              f"missing pattern (configuration), values symbolic"}
    chk.outside = ["series longer than the bound", "int32/int64/float32 inputs", "the xarray wrapper (trimming, nodata resolution)"]
    validate(chk, seed)
    chk.run(worker, configs(tier), nproc)
    chk.confirm(lambda c: replay_candidate(chk, c))
    return chk.finish(
        rule="one query per obligation (output cell x configuration); non-trivial = reaches z3 with >= 1 free variable; "
             "distinct by hash of the negated goal",
        explanation="rolling_sum and mean_grp are executed symbolically from /repo's source; per configuration the solver "
                    "decides the cell-wise specification for all int16 values and nodata values at once; candidates are "
                    "replayed on the compiled kernels")


def replay(path):
    chk = C.Check(PID, "quick", 0)
    c = json.load(open(path))
    ok, detail = replay_candidate(chk, c)
    chk.replayer.close()
    print(json.dumps(detail, default=str)[:2000])
    if ok:
        print(f"VIOLATION property={PID} replay={path}")
        return 1
    return 0
