"""C18 - run-length statistics: lroo (kernel + accessor + store-range induction) and croo (accessor, stubbed xarray)."""
import ast
import itertools
import json

import z3

from . import common as C
from . import xr_stubs as X
from pysym import vals as V
from pysym.arr import CArr, INT_RANGES
from pysym.interp import State, Instance
from pysym.sig import gufunc_signatures
from pysym.vals import Unsupported

PID = "C18"


def run_spec(bits):
    """Longest run of consecutive ones (>= 2 else 0) - run-counter definition."""
    r, L = z3.IntVal(0), z3.IntVal(0)
    for b in bits:
        r = z3.If(b, r + 1, 0)
        L = z3.If(r > L, r, L)
    return z3.If(L >= 2, L, 0)


def lroo_out_dtype(it):
    fn = it.get_function("hdc.algo.ops.lroo", "lroo")
    sigs, layout, n_in = gufunc_signatures(fn)
    return fn, sigs[0][0][0], sigs[0][n_in][0]


# ---------------------------------------------------------------- lroo, unrolled
def w_lroo(w, cfg):
    """cells: list of 'S' (symbolic uint8) / 0 / 1 ; one query decides all values of the symbolic cells."""
    layout = cfg["cells"]
    n = len(layout)
    it = C.new_interp(policy="exact")
    it.prune_mode = "off"
    fn, in_dt, out_dt = lroo_out_dtype(it)
    st = State()
    xs, cells = [], []
    for i, c in enumerate(layout):
        if c == "S":
            v = z3.Int(f"b{i}")
            xs.append(v)
            cells.append(v)
        else:
            cells.append(int(c))
    assume = [z3.And(x >= 0, x <= 255) for x in xs]
    data = it.new_array(st, (n,), in_dt, cells=cells)
    data.readonly = True
    out = C.make_out(it, st, (1,), out_dt, "out")
    it.call_function(st, fn, [data, out])
    w.res.encoded.update(it.encoded)
    o, wr = C.out_values(it, st, out)
    bits = [(c == 1) if V.is_sym(c) else z3.BoolVal(c == 1) for c in cells]

    def conc(m):
        return {"kind": "lroo", "data": [C.model_value(m, c) for c in cells]}
    w.discharge("lroo.written", assume, wr[0], concretize=conc)
    w.discharge("lroo.value", assume, o[0] == run_spec(bits), concretize=conc, sample=True)
    for ob in it.obligations:
        w.discharge(f"lroo.{ob.kind}@{ob.where}", assume, ob.claim, guard=ob.guard, concretize=conc)


# ---------------------------------------------------------------- lroo, store-range induction
class AbstractPositions:
    """Positions of the ones of an arbitrary series: strictly increasing ints in [0, N)."""

    def __init__(self, it, N, S):
        self.f = z3.Function("pos", z3.IntSort(), z3.IntSort())
        self.N, self.S, self.it = N, S, it
        self.dtype = "int64"

    def pysym_getitem(self, it, st, idx):
        idx = V.to_z3(it.use(st, idx))
        p = self.f(idx)
        it.A.lemma(("pos", idx.get_id()), z3.And(p >= 0, p < self.N, self.f(idx - 1) < p, p - self.f(idx - 1) >= 1))
        return p

    def pysym_getattr(self, it, st, attr):
        if attr == "size":
            return self.S
        if attr == "shape":
            return (self.S,)
        raise Unsupported(f"abstract positions: {attr}")

    def pysym_len(self, it, st):
        return self.S


def w_lroo_induct(w, cfg):
    """Inductive step over the run loop of lroo for series up to N_MAX steps (DESIGN 5 C18)."""
    nmax = cfg["nmax"]
    it = C.new_interp(policy="exact")
    it.prune_mode = "off"
    fn, in_dt, out_dt = lroo_out_dtype(it)
    w.res.encoded.update({"hdc.algo.ops.lroo.lroo(loop body, inductive)": "see lroo"})
    body = [s for s in fn.node.body if not (isinstance(s, ast.Expr) and isinstance(s.value, ast.Constant))]
    loops = [i for i, s in enumerate(body) if isinstance(s, ast.For)]
    if len(loops) != 1:
        raise Unsupported("lroo: expected exactly one top-level loop for the inductive step")
    li = loops[0]
    loop = body[li]
    # ---- prefix on a tiny symbolic series, to obtain the initial loop-carried values
    st = State()
    st.module, st.closure = fn.module, None
    probe = [z3.Int(f"p{i}") for i in range(3)]
    pname = fn.node.args.args[0].arg
    oname = fn.node.args.args[1].arg
    st.env[pname] = it.new_array(st, (3,), in_dt, cells=probe)
    st.env[oname] = C.make_out(it, st, (1,), out_dt, "out")
    it.exec_block(st, body[:li])
    assigned = {t.id for s in ast.walk(loop) for t in (getattr(s, "targets", []) + ([s.target] if isinstance(s, ast.AugAssign) else []))
                if isinstance(t, ast.Name)}
    carried = sorted(v for v in assigned if v in st.env and not isinstance(st.env[v], (CArr,)) and V.is_int_valued(st.env[v]))
    if not carried:
        raise Unsupported("lroo: no loop-carried integer state found")
    init = {v: st.env[v] for v in carried}
    seqs = [k for k, v in st.env.items() if isinstance(v, CArr)]
    N, S, ix = z3.Int("N"), z3.Int("S"), z3.Int("ix")
    facts = [N >= 1, N <= nmax, S >= 0, S <= N]
    # loop iteration variable and its start
    if not isinstance(loop.target, ast.Name):
        raise Unsupported("lroo loop target")
    tmp = State()
    tmp.module, tmp.closure = fn.module, None
    tmp.env = dict(st.env)
    for k in seqs:
        tmp.env[k] = AbstractPositions(it, N, S)
    rng = it.eval(tmp, loop.iter)
    start = rng.start if hasattr(rng, "start") else None
    stop = rng.stop if hasattr(rng, "stop") else None
    if start != 1 or stop is None:
        raise Unsupported("lroo loop range shape")
    inv = lambda vals, k: z3.And(*[z3.And(V.to_z3(vals[v]) >= 0, V.to_z3(vals[v]) <= k) for v in carried])  # noqa: E731

    def conc(m):
        k = C.model_value(m, N)
        mx = max([int(C.model_value(m, z3.Int(f"c_{v}"))) for v in carried] + [2])
        run = min(max(mx, 2), 5000)
        return {"kind": "lroo", "data": [1] * run, "note": "run of ones sized from the model of the inductive step"}
    # init
    w.discharge("lroo.induct.init", facts, inv(init, start), concretize=conc)
    # step
    cur = {v: z3.Int(f"c_{v}") for v in carried}
    st2 = State()
    st2.module, st2.closure = fn.module, None
    st2.env = dict(tmp.env)
    st2.env.update(cur)
    st2.env[loop.target.id] = ix
    step_assume = facts + [inv(cur, ix), ix >= start, ix < V.to_z3(stop)]
    it.exec_block(st2, loop.body)
    nxt = {v: st2.env[v] for v in carried}
    w.discharge("lroo.induct.step", step_assume, inv(nxt, ix + 1), lemmas=it.A.lemmas, concretize=conc, sample=True)
    # exit: loop ran up to ix = max(stop, start); carried values bounded by that
    st3 = State()
    st3.module, st3.closure = fn.module, None
    st3.env = dict(tmp.env)
    st3.env.update(cur)
    st3.env[oname] = C.make_out(it, st3, (1,), out_dt, "out")
    st3.heap.update(st.heap)
    k_exit = z3.If(V.to_z3(stop) > start, V.to_z3(stop), start)
    exit_assume = facts + [inv(cur, k_exit)]
    n0 = len(it.obligations)
    it.exec_block(st3, body[li + 1:])
    for ob in it.obligations[n0:]:
        w.discharge(f"lroo.induct.exit.{ob.kind}@{ob.where}", exit_assume, ob.claim, guard=ob.guard, concretize=conc)
    o, wr = C.out_values(it, st3, st3.env[oname])
    w.discharge("lroo.induct.exit.written", exit_assume, wr[0], concretize=conc)
    w.vacuity("lroo.induct.step.reachable", step_assume, lemmas=it.A.lemmas)


# ---------------------------------------------------------------- accessors
def make_accessor(it, st, cls_name, da, record=None):
    cls = it.get_function("hdc.algo.accessors", cls_name)
    cls.link_bases(it)
    inst = Instance(cls)
    inst.fields["_obj"] = da
    it.lib_overrides["xarray.apply_ufunc"] = X.make_apply_ufunc(C.make_out, record)
    return cls, inst


def w_croo(w, cfg):
    n = cfg["n"]
    dims = tuple(cfg.get("dims") or ("time",))
    it = C.new_interp(policy="exact")
    it.prune_mode = "off"
    st = State()
    vs = [z3.Int(f"v{i}") for i in range(n)]
    ts = [z3.Int(f"t{i}") for i in range(n)]
    assume = [z3.Or(v == 0, v == 1) for v in vs] + [z3.Distinct(*ts)] if n > 1 else [z3.Or(v == 0, v == 1) for v in vs]
    da = X.StubDA(vs, dims, ts, dtype="int64")
    cls, inst = make_accessor(it, st, "PixelAlgorithms", da)
    res = it.call_function(st, cls.methods["croo"], [inst])
    w.res.encoded.update(it.encoded)
    if not isinstance(res, X.StubDA) or len(res.vals) != 1:
        raise Unsupported("croo did not return a per-pixel scalar")
    got = res.vals[0]
    # definition: number of steps i such that every step at or after i (chronologically) is 1
    spec = z3.Sum([z3.If(z3.And(*[z3.Implies(ts[j] >= ts[i], vs[j] == 1) for j in range(n)]), 1, 0) for i in range(n)])

    def conc(m):
        return {"kind": "croo", "values": [C.model_value(m, v) for v in vs], "times": [C.model_value(m, t) for t in ts], "dims": list(dims)}
    w.discharge("croo.value", assume, V.to_z3(got) == spec, lemmas=it.A.lemmas, concretize=conc, sample=True)
    w.discharge("croo.no_nan", assume, V.z_not(res.nan[0]), concretize=conc)
    for ob in it.obligations:
        w.discharge(f"croo.{ob.kind}@{ob.where}", assume, ob.claim, guard=ob.guard, concretize=conc)
    w.vacuity("croo.assumptions", assume)


def w_lroo_accessor(w, cfg):
    n = cfg["n"]
    it = C.new_interp(policy="exact")
    it.prune_mode = "off"
    st = State()
    vs = [z3.Int(f"v{i}") for i in range(n)]
    assume = [z3.And(v >= 0, v <= 255) for v in vs]
    rec = []
    da = X.StubDA(vs, ("time",), list(range(n)), dtype="uint8")
    cls, inst = make_accessor(it, st, "PixelAlgorithms", da, rec)
    res = it.call_function(st, cls.methods["lroo"], [inst])
    w.res.encoded.update(it.encoded)
    got = res.vals[0]
    if isinstance(got, V.Partial):
        w.discharge("lroo_accessor.written", assume, got.defined)
        got = got.value

    def conc(m):
        return {"kind": "lroo_accessor", "data": [C.model_value(m, v) for v in vs]}
    w.discharge("lroo_accessor.value", assume, V.to_z3(got) == run_spec([v == 1 for v in vs]), concretize=conc)
    # the dtype announced to dask must be the dtype the kernel writes
    fn, in_dt, out_dt = lroo_out_dtype(it)
    decl = rec[0]["other"].get("output_dtypes") if rec else None
    ok = decl is None or [str(x) for x in decl] == [out_dt]
    w.discharge("lroo_accessor.output_dtype_declared", [], z3.BoolVal(bool(ok)),
                concretize=lambda m: {"kind": "lroo_dtype", "declared": decl, "kernel": out_dt})
    # missing time dimension must raise
    it2 = C.new_interp(policy="exact")
    st2 = State()
    da2 = X.StubDA(vs[:1], ("band",), [0], dtype="uint8", core="band")
    cls2, inst2 = make_accessor(it2, st2, "PixelAlgorithms", da2)
    it2.call_function(st2, cls2.methods["lroo"], [inst2])
    raised = V.z_or(*[g for g, k, m in st2.exc_list if k == "MissingTimeError"])
    w.discharge("lroo_accessor.missing_time_raises", [], raised)


def worker(w, cfg):
    {"lroo": w_lroo, "induct": w_lroo_induct, "croo": w_croo, "lroo_accessor": w_lroo_accessor}[cfg["kind"]](w, cfg)


def configs(tier):
    cf = []
    nfull = 12 if tier == "quick" else 16
    for n in range(1, nfull + 1):
        cf.append({"kind": "lroo", "cells": ["S"] * n})
    # structured long series: a window of symbolic cells on a background of zeros, placed across the uint8 position wraps
    win = 8 if tier == "quick" else 10
    for total, off in [(300, 250), (300, 0), (600, 505), (1000, 764), (1000, 990)]:
        cells = [0] * total
        for k in range(off, min(total, off + win)):
            cells[k] = "S"
        cf.append({"kind": "lroo", "cells": cells})
    # two symbolic cells 257 apart on zeros (false adjacency after position wrap)
    cells = [0] * 300
    for k in (5, 6, 261, 262, 263):
        cells[k] = "S"
    cf.append({"kind": "lroo", "cells": cells})
    cf.append({"kind": "induct", "nmax": 1000})
    for n in range(1, (6 if tier == "quick" else 8) + 1):
        cf.append({"kind": "croo", "n": n})
        if n in (2, 3, 4):
            # the time dimension is not the leading one (as the library's own apply_ufunc-based methods return their cubes)
            cf.append({"kind": "croo", "n": n, "dims": ["y", "x", "time"]})
            cf.append({"kind": "croo", "n": n, "dims": ["y", "time", "x"]})
    for n in (1, 2, 5):
        cf.append({"kind": "lroo_accessor", "n": n})
    return cf


def validate(chk, seed):
    import random
    rnd = random.Random(seed)
    cases = [[0, 0, 0, 1, 1, 1, 0, 0, 0, 0]]
    for _ in range(20):
        n = rnd.randint(1, 40)
        cases.append([rnd.choice([0, 1, 1, 2]) for _ in range(n)])
    for data in cases:
        it = C.new_interp(concrete=True)
        fn, in_dt, out_dt = lroo_out_dtype(it)
        st = State()
        a = it.new_array(st, (len(data),), in_dt, cells=list(data))
        out = C.make_out(it, st, (1,), out_dt)
        it.call_function(st, fn, [a, out])
        mine = C.out_values(it, st, out)[0][0]
        real = chk.replayer.call("call", fn="hdc.algo.ops.lroo:lroo", args=[{"nd": data, "dtype": "uint8"}])["value"]
        chk.validate("lroo", mine, real)
    # xarray contract validation: croo stub vs the real accessor on random permutations
    for _ in range(10):
        n = rnd.randint(1, 7)
        vals = [rnd.choice([0, 1, 1]) for _ in range(n)]
        times = list(range(n))
        rnd.shuffle(times)
        it = C.new_interp(concrete=True)
        st = State()
        da = X.StubDA(vals, ("time",), times, dtype="int64")
        cls, inst = make_accessor(it, st, "PixelAlgorithms", da)
        res = it.call_function(st, cls.methods["croo"], [inst])
        real = chk.replayer.call("c18_croo", values=vals, times=times)["croo"]
        chk.validate("PixelAlgorithms.croo (xarray contracts)", res.vals[0], real)


def replay_candidate(chk, c):
    inp = c["input"]
    k = inp["kind"]
    if k in ("lroo", "lroo_accessor"):
        r = chk.replayer.call("c18_lroo", data=inp["data"], accessor=(k == "lroo_accessor"))
    elif k == "croo":
        r = chk.replayer.call("c18_croo", values=inp["values"], times=inp["times"], dims=inp.get("dims"))
    elif k == "lroo_dtype":
        r = chk.replayer.call("c18_lroo_dtype")
    else:
        return False, {"note": "no replay for this obligation"}
    return bool(r["violates"]), r


KNOWN = {}


def main(tier, seed, nproc=None):
    chk = C.Check(PID, tier, seed)
    chk.assumptions = ["cells are uint8 values (lroo) / {0,1} (croo); time stamps pairwise distinct",
                       "xarray methods sortby/where/cumsum/isnull/argmax/isel/apply_ufunc replaced by contracts (validated against xarray each run)",
                       "store-range induction: invariant 0 <= carried <= iteration index is hand-written; np.where positions abstracted to a strictly increasing sequence"]
    chk.bounds = {"lroo": f"all uint8 series of length 1..{12 if tier == 'quick' else 16} (symbolic); windows of 8-10 symbolic cells on zero background in series of 300/600/1000 steps",
                  "lroo store range": "inductive step, series length N <= 1000 symbolic", "croo": f"n <= {6 if tier == 'quick' else 8}, all stored orders (symbolic distinct time stamps)"}
    chk.outside = ["series longer than 1000", "non-binary values for croo", "dask execution"]
    validate(chk, seed)
    chk.run(worker, configs(tier), nproc)
    chk.confirm(lambda c: replay_candidate(chk, c))
    return chk.finish(
        rule="one query per obligation and configuration (series layout); non-trivial = >= 1 free variable; distinct by goal hash",
        explanation="lroo executed symbolically from source (np.where as compacted symbolic-length array) against a run-counter "
                    "definition; croo method executed over xarray contracts with symbolic storage order; store range by induction over the loop body")


def replay(path):
    chk = C.Check(PID, "quick", 0)
    c = json.load(open(path))
    ok, detail = replay_candidate(chk, c)
    chk.replayer.close()
    print(json.dumps(detail, default=str)[:2000])
    if ok:
        print(f"VIOLATION property={PID} replay={path}")
        return 1
    return 0
