"""C19 - iterative aggregation yields exactly the complete trailing windows (DESIGN 5, C19).

`IterativeAggregation._iteragg` (and sum/mean/full) is executed symbolically over contracts for the xarray / pandas
objects it touches: a sorted index of symbolic labels, `get_indexer` (position, or -1 when the label cannot be
located), positional slicing, assign_attrs / reduce / expand_dims recorded as data.
"""
import json

import z3

from . import common as C
from pysym import vals as V
from pysym.interp import State, Instance, SliceV, LibRef
from pysym.lib import native, NativeBound, SymStr
from pysym.vals import Unsupported, z_and, z_or, z_not, is_sym

PID = "C19"


# ---------------------------------------------------------------- contracts
class IndexStub:
    def __init__(self, labels):
        self.labels = labels

    def pysym_len(self, it, st):
        return len(self.labels)

    def pysym_getattr(self, it, st, attr):
        if attr == "get_indexer":
            return NativeBound(lambda it, st, selfv, target, method=None, **kw: self.get_indexer(it, st, target, method), self)
        if attr == "size":
            return len(self.labels)
        raise Unsupported(f"Index.{attr}")

    def get_indexer(self, it, st, target, method):
        """pandas.Index.get_indexer([x], method): position of x, or -1 if it cannot be located (never raises KeyError)."""
        (x,) = it.iter_values(st, target)
        L = self.labels
        n = len(L)
        if method is None:
            pos = -1
            for i in range(n - 1, -1, -1):
                pos = it.A.ite(it.A.cmp("==", L[i], x), i, pos)
        elif method in ("ffill", "pad"):
            pos = -1
            for i in range(n):
                pos = it.A.ite(it.A.cmp("<=", L[i], x), i, pos)
        elif method in ("bfill", "backfill"):
            pos = -1
            for i in range(n - 1, -1, -1):
                pos = it.A.ite(it.A.cmp(">=", L[i], x), i, pos)
        elif method == "nearest":
            pos = 0
            for i in range(1, n):
                # closer to L[i] than to L[i-1] (ties excluded by the harness assumptions)
                closer = it.A.cmp(">", it.A.mul(2, x), it.A.add(L[i - 1], L[i]))
                pos = it.A.ite(closer, i, pos)
        else:
            raise Unsupported(f"get_indexer method {method}")
        if is_sym(pos):
            it.int_bounds[pos.get_id()] = (-1, n - 1)
        return it.new_array(st, (1,), "int64", cells=[pos])

    def pysym_getitem(self, it, st, idx):
        n = len(self.labels)
        if isinstance(idx, SliceV):
            lo, hi = it.use(st, idx.lo), it.use(st, idx.hi)
            lo = 0 if lo is None else lo
            hi = n if hi is None else hi
            # python slice semantics incl. negative wrap and clamping
            def norm(v):
                v = it.A.ite(it.A.cmp("<", v, 0), it.A.add(v, n), v)
                v = it.A.maximum(v, 0)
                return it.A.minimum(v, n)
            a, b = norm(lo), norm(hi)
            return SizeOnly(it.A.maximum(it.A.sub(b, a), 0))
        k = it.use(st, idx)
        if isinstance(k, int):
            return self.labels[k]
        it.oblige(st, "index-bounds", z3.And(k >= -n, k < n), "label lookup on the index")
        k2 = z3.If(k < 0, k + n, k)
        res = self.labels[n - 1]
        for i in range(n - 2, -1, -1):
            res = it.A.ite(k2 == i, self.labels[i], res)
        return res


class SizeOnly:
    def __init__(self, size):
        self.size = size

    def pysym_getattr(self, it, st, attr):
        if attr == "size":
            return self.size
        raise Unsupported(attr)


class CoordStub:
    def __init__(self, index):
        self.index = index

    def pysym_getattr(self, it, st, attr):
        if attr == "to_index":
            return NativeBound(lambda it, st, selfv: self.index, self)
        if attr == "size":
            return len(self.index.labels)
        raise Unsupported(f"coordinate.{attr}")

    def pysym_getitem(self, it, st, idx):
        return ValuesOf(self.index.pysym_getitem(it, st, idx))


class ValuesOf:
    def __init__(self, v):
        self.v = v

    def pysym_getattr(self, it, st, attr):
        if attr == "values":
            return self.v
        raise Unsupported(attr)


class CubeStub:
    """The DataArray the accessor wraps: dims, one indexed dimension of length L (the others have size 2), slicing recorded."""

    def __init__(self, dims, dim, index):
        self.dims, self.dim, self.index = tuple(dims), dim, index

    def pysym_len(self, it, st):
        return len(self.index.labels) if self.dims[0] == self.dim else 2

    def pysym_getattr(self, it, st, attr):
        if attr == "dims":
            return self.dims
        if attr == "sizes":
            return {d: (len(self.index.labels) if d == self.dim else 2) for d in self.dims}
        if attr == "shape":
            return tuple(len(self.index.labels) if d == self.dim else 2 for d in self.dims)
        if attr == self.dim:
            return CoordStub(self.index)
        raise Unsupported(f"DataArray.{attr}")

    def pysym_getitem(self, it, st, idx):
        if isinstance(idx, str):
            if idx != self.dim:
                raise Unsupported("other coordinate")
            return CoordStub(self.index)
        if isinstance(idx, dict):
            ((d, sl),) = idx.items()
            if not isinstance(sl, SliceV):
                raise Unsupported("non-slice region")
            return Window(self, d, it.use(st, sl.lo), it.use(st, sl.hi), sl.step)
        raise Unsupported("DataArray indexing form")


class CondRed:
    def __init__(self, cond, a, b):
        self.cond, self.a, self.b = cond, a, b


class Window:
    def __init__(self, cube, dim, lo, hi, step, attrs=None, reduced=None, expanded=None):
        self.cube, self.dim, self.lo, self.hi, self.step = cube, dim, lo, hi, step
        self.attrs, self.reduced, self.expanded = attrs, reduced, expanded

    def _copy(self, **kw):
        w = Window(self.cube, self.dim, self.lo, self.hi, self.step, self.attrs, self.reduced, self.expanded)
        for k, v in kw.items():
            setattr(w, k, v)
        return w

    def pysym_merge(self, it, c, other):
        """Two results of the same slice that differ only in how they were reduced (a branch in the accessor)."""
        if not isinstance(other, Window) or self.cube is not other.cube or self.dim != other.dim or self.step != other.step \
                or not (V.same(self.lo, other.lo) and V.same(self.hi, other.hi)) or self.attrs is not other.attrs \
                or self.expanded != other.expanded:
            return None
        return self._copy(reduced=CondRed(c, self.reduced, other.reduced))

    def pysym_getattr(self, it, st, attr):
        if attr == "assign_attrs":
            return NativeBound(lambda it, st, selfv, d=None, **kw: self._copy(attrs=dict(d or {}, **kw)), self)
        if attr == "reduce":
            def red(it, st, selfv, func, dim=None, keep_attrs=None, **kw):
                return self._copy(reduced={"func": func, "dim": dim, "keep_attrs": keep_attrs})
            return NativeBound(red, self)
        if attr == "expand_dims":
            return NativeBound(lambda it, st, selfv, **kw: self._copy(expanded=kw), self)
        if attr in ("squeeze", "isel", "sum", "mean", "max", "min", "fillna", "where", "astype", "copy", "transpose"):
            # any other way of producing the result than reduce(func, dim): recorded, and the result no longer "describes" the
            # NaN-skipping reduction of the window (the replayer decides with NaN pixels)
            def other(it, st, selfv, *a, **kw):
                return self._copy(reduced={"func": f"<{attr}>", "dim": (a[0] if a else kw.get("dim")), "keep_attrs": None, "via": attr})
            return NativeBound(other, self)
        raise Unsupported(f"window.{attr}")


def term_of(v):
    if isinstance(v, SymStr):
        if len(v.parts) == 1 and v.parts[0][0] == "int":
            return v.parts[0][1]
        raise Unsupported("composite label string")
    if isinstance(v, str):
        try:
            return int(v)
        except ValueError:
            return v
    return v


# ---------------------------------------------------------------- worker
FUNC_OF = {"sum": "numpy.nansum", "mean": "numpy.nanmean", "full": None}


def worker(w, cfg):
    L, meth, which = cfg["L"], cfg["method"], cfg["which"]
    has_b, has_e, has_n, dim = cfg["begin"], cfg["end"], cfg["n"], cfg["dim"]
    it = C.new_interp(policy="exact")
    it.prune_mode = "off"
    labels = [z3.Int(f"l{i}") for i in range(L)]
    assume = [labels[i] < labels[i + 1] for i in range(L - 1)]
    n = z3.Int("n") if has_n else None
    b = z3.Int("begin") if has_b else None
    e = z3.Int("end") if has_e else None
    if has_n:
        assume += [n >= 1, n <= L + 1]
    if meth == "nearest":
        for x in (b, e):
            if x is not None:
                assume += [2 * x != labels[i] + labels[i + 1] for i in range(L - 1)]
    index = IndexStub(labels)
    cube = CubeStub((dim, "y", "x") if cfg.get("lead", True) else ("y", "x", dim), dim, index)
    cls = it.get_function("hdc.algo.accessors", "IterativeAggregation")
    cls.link_bases(it)
    try:
        inst = it.instantiate(State(), cls, [cube], {})      # runs __init__ (instance state of the accessor)
    except Unsupported:
        inst = Instance(cls)
        inst.fields["_obj"] = cube
    if "_obj" not in inst.fields:
        inst.fields["_obj"] = cube
    old_labels = None
    if cfg.get("history"):
        # a history on ONE object: an earlier aggregation with other labels on the axis, then the axis is relabelled in place
        # (xarray keeps the accessor instance of a DataArray) and the call under test follows
        old_labels = [z3.Int(f"old{i}") for i in range(L)]
        assume += [old_labels[i] < old_labels[i + 1] for i in range(L - 1)]
        cube.index = IndexStub(old_labels)
        st0 = State()
        it.call_function(st0, cls.methods[which], [inst], {"n": None, "dim": dim, "begin": None, "end": None, "method": None})
        cube.index = index
        it.obligations[:] = []
    st = State()
    it.call_function(st, cls.methods[which], [inst], {"n": n, "dim": dim, "begin": b, "end": e, "method": meth})
    w.res.encoded.update(it.encoded)
    lem = list(it.A.lemmas)

    # ---- located positions by the contract (independent statement of "can be located")
    def locate(x):
        if meth is None:
            found = z3.Or(*[labels[i] == x for i in range(L)])
            pos = z3.Sum([z3.If(labels[i] == x, i, 0) for i in range(L)])
        elif meth == "ffill":
            found = labels[0] <= x
            pos = z3.Sum([z3.If(labels[i] <= x, 1, 0) for i in range(L)]) - 1
        elif meth == "bfill":
            found = labels[L - 1] >= x
            pos = z3.Sum([z3.If(labels[i] < x, 1, 0) for i in range(L)])
        else:
            found = z3.BoolVal(True)
            pos = z3.Sum([z3.If(2 * x > labels[i - 1] + labels[i], 1, 0) for i in range(1, L)]) if L > 1 else z3.IntVal(0)
        return found, pos
    fb, pb = locate(b) if has_b else (z3.BoolVal(True), z3.IntVal(L - 1))
    fe, pe = locate(e) if has_e else (z3.BoolVal(True), z3.IntVal(0))
    nn = n if has_n else z3.IntVal(L)
    located = z3.And(fb, fe)
    raised_ve = z_or(*[g for g, k, m in st.exc_list if k == "ValueError"])
    raised_any = z_or(*[g for g, k, m in st.exc_list])

    def conc(m):
        return {"L": L, "labels": [C.model_value(m, x) for x in labels], "n": C.model_value(m, n) if has_n else None,
                "begin": C.model_value(m, b) if has_b else None, "end": C.model_value(m, e) if has_e else None,
                "method": meth, "which": which, "dim": dim, "lead": cfg.get("lead", True),
                "old_labels": [C.model_value(m, x) for x in old_labels] if old_labels else None}
    # unlocatable label => ValueError (and nothing yielded)
    w.discharge("iteragg.unlocatable_raises", assume + [z3.Not(located)], raised_ve, lemmas=lem, concretize=conc,
                known_preds={}, sample=False)
    w.discharge("iteragg.no_exception_when_located", assume + [located], z_not(raised_any), lemmas=lem, concretize=conc)
    # ---- yields
    ys = st.yields
    for g, y in ys:
        if not isinstance(y, Window):
            raise Unsupported("yielded object is not a slice of the input")
    # every expected window is yielded exactly once, nothing else is
    for last in range(L - 1, -1, -1):      # last step (0-based) of the window
        expect = z3.And(located, pe <= last, last <= pb, last - nn + 1 >= 0)
        hits = []
        for g, y in ys:
            hits.append(z_and(g, V.to_z3(it.A.cmp("==", y.hi, last + 1))))
        cnt = z3.Sum([z3.If(V.to_z3(h), 1, 0) for h in hits]) if hits else z3.IntVal(0)
        w.discharge(f"iteragg.window_yielded_iff_expected[last={last}]", assume, cnt == z3.If(expect, 1, 0), lemmas=lem,
                    concretize=conc, sample=(last == L - 1))
    for k, (g, y) in enumerate(ys):
        g = V.to_z3(g)
        hi, lo = V.to_z3(y.hi), V.to_z3(y.lo)
        props = [hi >= 1, hi <= L, lo == hi - nn, lo >= 0, y.step is None]
        attrs = y.attrs or {}
        lo_lab = z3.Sum([z3.If(lo == i, labels[i], 0) for i in range(L)])
        hi_lab = z3.Sum([z3.If(hi - 1 == i, labels[i], 0) for i in range(L)])
        try:
            props.append(V.to_z3(term_of(attrs.get("agg_start"))) == lo_lab)
            props.append(V.to_z3(term_of(attrs.get("agg_stop"))) == hi_lab)
            props.append(V.to_z3(attrs.get("agg_n")) == nn)
        except Exception:
            props.append(z3.BoolVal(False))
        props.append(z3.BoolVal(set(attrs) == {"agg_start", "agg_stop", "agg_n"}))
        want = FUNC_OF[which]
        if want is None:
            props.append(z3.BoolVal(y.reduced is None and y.expanded is None))
        else:
            def red_ok(r):
                if isinstance(r, CondRed):
                    return z3.If(V.to_z3(r.cond), red_ok(r.a), red_ok(r.b))
                r = r or {}
                f = r.get("func")
                return z3.BoolVal(isinstance(f, LibRef) and f.name == want and r.get("dim") == dim and r.get("keep_attrs") is True)
            props.append(red_ok(y.reduced))
            if dim == "time":
                ex = y.expanded or {}
                tv = ex.get("time")
                ok = isinstance(tv, list) and len(tv) == 1 and set(ex) == {"time"}
                props.append(z3.BoolVal(bool(ok)))
                if ok:
                    props.append(V.to_z3(tv[0]) == hi_lab)
            else:
                props.append(z3.BoolVal(y.expanded is None))
        w.discharge(f"iteragg.result_describes_window[{k}]", assume, z3.And(*props), guard=g, lemmas=lem, concretize=conc)
        # order: newest first
        for g2, y2 in ys[k + 1:]:
            w.discharge(f"iteragg.newest_first[{k}]", assume, V.to_z3(y2.hi) < hi, guard=z3.And(g, V.to_z3(g2)), lemmas=lem,
                        concretize=conc)
    for ob in it.obligations:
        w.discharge(f"iteragg.{ob.kind}@{ob.where}", assume, ob.claim, guard=ob.guard, lemmas=lem, concretize=conc)
    w.vacuity("iteragg.located_reachable", assume + [located], lemmas=lem)
    if has_b or has_e:
        if meth != "nearest":
            w.vacuity("iteragg.unlocatable_reachable", assume + [z3.Not(located)], lemmas=lem)


def configs(tier):
    cf = []
    Lmax = 5 if tier == "quick" else 12
    for L in range(1, Lmax + 1):
        for meth in (None, "nearest", "ffill", "bfill"):
            for has_b in (False, True):
                for has_e in (False, True):
                    if meth is not None and not (has_b or has_e):
                        continue
                    for has_n in (True, False):
                        which = "sum" if (L + has_b + 2 * has_e) % 3 == 0 else ("mean" if (L + has_b) % 2 else "full")
                        dim = "time" if (L + has_e) % 2 == 0 or which == "sum" else "band"
                        cf.append({"L": L, "method": meth, "begin": has_b, "end": has_e, "n": has_n, "which": which, "dim": dim,
                                   "lead": (L + has_b + has_n) % 2 == 0})
    # histories: the same object used before with other labels
    for L in (2, 3):
        for meth in (None, "ffill"):
            cf.append({"L": L, "method": meth, "begin": True, "end": True, "n": True, "which": "sum", "dim": "time", "lead": True, "history": True})
            cf.append({"L": L, "method": meth, "begin": True, "end": False, "n": False, "which": "full", "dim": "band", "lead": False, "history": True})
    if tier == "thorough":
        extra = []
        for c in cf:
            for which in ("sum", "mean", "full"):
                for dim in ("time", "band"):
                    if (which, dim) != (c["which"], c["dim"]) and c["L"] <= 5:
                        extra.append(dict(c, which=which, dim=dim))
        cf += extra
    return cf


def validate(chk, seed):
    """Contract validation: get_indexer stub vs pandas on on-/off-axis labels for every method."""
    import random
    rnd = random.Random(seed)
    for _ in range(24):
        L = rnd.randint(1, 6)
        labels = sorted(rnd.sample(range(0, 40, 2), L))
        x = rnd.choice(labels + [labels[0] - 3, labels[-1] + 3, labels[0] + 1])
        meth = rnd.choice([None, "nearest", "ffill", "bfill"])
        if meth == "nearest" and any(2 * x == labels[i] + labels[i + 1] for i in range(L - 1)):
            continue
        it = C.new_interp(concrete=True)
        st = State()
        arr = IndexStub(labels).get_indexer(it, st, [x], meth)
        mine = it.arr_values(st, arr)[0]
        real = chk.replayer.call("c19_get_indexer", labels=labels, x=x, method=meth)["pos"]
        chk.validate("pandas.Index.get_indexer contract", mine, real)


def replay_candidate(chk, c):
    inp = c["input"]
    r = chk.replayer.call("c19_iteragg", **inp)
    return bool(r["violates"]), r


def main(tier, seed, nproc=None):
    chk = C.Check(PID, tier, seed)
    chk.assumptions = ["axis labels are strictly increasing values of a totally ordered type (modelled as integers)",
                       "pandas get_indexer: position if locatable else -1, never KeyError (validated against pandas each run); "
                       "nearest ties excluded", "xarray slicing/assign_attrs/reduce/expand_dims recorded, not executed "
                       "(NaN-skipping of np.nansum/np.nanmean is numpy's)"]
    chk.bounds = {"axis length": f"1..{5 if tier == 'quick' else 12}", "n": "symbolic 1..L+1 or None", "begin/end": "symbolic labels "
                  "(on and off the axis) or None", "method": "None / nearest / ffill / bfill", "variant/dim": "sum, mean, full on time and "
                  "non-time dimension (rotated in quick, all combinations in thorough)"}
    chk.outside = ["axes longer than the bound", "unsorted or duplicate labels", "numerical result of the reduction itself"]
    validate(chk, seed)
    chk.run(worker, configs(tier), nproc)
    chk.confirm(lambda c: replay_candidate(chk, c))
    return chk.finish(
        rule="one query per obligation (expected window / yielded result / ordering / error) and configuration; non-trivial = >= 1 "
             "free variable; distinct by goal hash",
        explanation="_iteragg executed symbolically (generator yields collected with path guards) over index contracts; labels, n, "
                    "begin, end are solver variables")


def replay(path):
    chk = C.Check(PID, "quick", 0)
    c = json.load(open(path))
    ok, detail = replay_candidate(chk, c)
    chk.replayer.close()
    print(json.dumps(detail, default=str)[:2000])
    if ok:
        print(f"VIOLATION property={PID} replay={path}")
        return 1
    return 0
