"""C20 - temporal interpolation averages the daily Whittaker curve per period (DESIGN 5, C20). Regime 1 (exact-linear)."""
import json
from fractions import Fraction as F

import z3

from . import common as C
from pysym import vals as V
from pysym.interp import State
from pysym.vals import Unsupported

PID = "C20"
LAM = F(1, 100000)


def layouts(tier):
    """(name, template (0/1 per day), labels per day)."""
    out = []

    def marks(D, days):
        return [1 if d in days else 0 for d in range(D)]

    def blocks(D, size, start=1, wrap=None):
        lab = []
        k = start
        for d in range(D):
            if d and d % size == 0:
                k += 1
                if wrap and k > wrap:
                    k = 1
            lab.append(k)
        return lab
    out.append(("5-day marks / pentad labels", marks(30, set(range(0, 30, 5))), blocks(30, 5)))
    out.append(("8-day marks / dekad labels", marks(40, set(range(0, 40, 8))), blocks(40, 10)))
    out.append(("10-day marks / dekad-of-year labels across New Year (36 -> 1)", marks(50, set(range(4, 50, 10))), blocks(50, 10, start=35, wrap=36)))
    out.append(("16-day marks / month-like labels", marks(60, {0, 16, 32, 48}), [1] * 31 + [2] * 29))
    out.append(("irregular marks / dekads", marks(40, {1, 4, 12, 13, 27, 39}), blocks(40, 10, start=7)))
    out.append(("marks on first and last day / daily labels", marks(12, {0, 3, 7, 11}), list(range(101, 113))))
    if tier == "thorough":
        out.append(("8-day marks, 25 observations / dekads, 200 days", marks(200, set(range(0, 200, 8))), blocks(200, 10)))
        out.append(("16-day marks / dekad-of-year labels, 400 days", marks(400, set(range(3, 400, 16))), blocks(400, 10, start=30, wrap=36)))
    return out


def runs_of(labels):
    runs = []
    start = 0
    for i in range(1, len(labels) + 1):
        if i == len(labels) or labels[i] != labels[i - 1]:
            runs.append((start, i))
            start = i
    return runs


def w_layout(w, cfg):
    name, template, labels, mode = cfg["name"], cfg["template"], cfg["labels"], cfg["mode"]
    D = len(template)
    days = [d for d in range(D) if template[d]]
    n = len(days)
    runs = runs_of(labels)
    it = C.new_interp(policy="exact")
    it.prune_mode = "off"
    fn = it.get_function("hdc.algo.ops.tinterpolate", "tinterpolate")
    st = State()
    xs = [z3.Int(f"x{j}") for j in range(n)]
    a, b = z3.Int("a"), z3.Int("b")
    assume = [z3.And(x >= -10000, x <= 10000) for x in xs]
    if mode == "constant":
        assume += [x == a for x in xs]
    elif mode == "linear":
        assume += [xs[j] == a + b * days[j] for j in range(n)] + [b >= -50, b <= 50]
    xa = it.new_array(st, (n,), "int16", cells=list(xs))
    ta = it.new_array(st, (D,), "float64", cells=[V.fr(F(t)) for t in template])
    la = it.new_array(st, (D,), "int32", cells=list(labels))
    helper = it.new_array(st, (len(runs),), "uint8", cells=[0] * len(runs))
    xa.readonly = ta.readonly = la.readonly = helper.readonly = True
    out = C.make_out(it, st, (len(runs),), "int16", "out")
    try:
        it.call_function(st, fn, [xa, ta, la, helper, out])
    except V.NonLinear as e:
        # the solve left the exact-linear regime: some weight or pivot depends on the observations, although the statement puts
        # weight only on the marks. Not decidable here - handed to the replayer with observations that include zeros / extremes.
        w.res.queries.append({"name": "tinterpolate.weights_independent_of_observations", "verdict": "sat", "time": 0.0,
                              "hash": "nonlinear:" + name + mode, "nvars": n, "config": w.config})
        w.res.candidates.append({"obligation": "tinterpolate.weights_independent_of_observations", "config": w.config, "known": None,
                                 "input": {"name": name, "x": [0 if j % 2 == 0 else 500 + 37 * j for j in range(n)], "template": template,
                                           "labels": labels, "mode": "general"}})
        return
    w.res.encoded.update(it.encoded)
    vals, written = C.out_values(it, st, out)

    def conc(m):
        return {"name": name, "x": [C.model_value(m, x) for x in xs], "template": template, "labels": labels, "mode": mode}
    for k in range(len(runs)):
        w.discharge(f"tinterpolate.written[{k}]", assume, written[k], concretize=conc)
    if mode == "general":
        # the daily curve is constrained only by its normal equations: (W + lam D'D) z = W t, t = observations on the marks
        from .C01 import penalty_matrix
        A = penalty_matrix(D, LAM, template)
        zs = [z3.Real(f"z{i}") for i in range(D)]
        obs = {d: xs[j] for j, d in enumerate(days)}
        normal = []
        for i in range(D):
            lhs = z3.Sum([z3.RealVal(A[i][j]) * zs[j] for j in range(D) if A[i][j] != 0])
            normal.append(lhs == (z3.ToReal(obs[i]) if template[i] else 0))
        for k, (s, e) in enumerate(runs):
            mean = z3.Sum(zs[s:e]) / (e - s)
            w.discharge(f"tinterpolate.period_mean_of_curve[{k}]", assume + normal, V.to_z3(vals[k]) == V.to_z3(it.A.round_half_even(mean)),
                        concretize=conc, sample=(k == 0))
    elif mode == "constant":
        for k in range(len(runs)):
            w.discharge(f"tinterpolate.constant_kept[{k}]", assume, V.to_z3(vals[k]) == a, concretize=conc)
    else:
        for k, (s, e) in enumerate(runs):
            mean = z3.ToReal(a) + z3.ToReal(b) * F(sum(range(s, e)), e - s)
            w.discharge(f"tinterpolate.linear_period_mean[{k}]", assume, V.to_z3(vals[k]) == V.to_z3(it.A.round_half_even(mean)), concretize=conc)
    for k, ev in enumerate(it.A.nf_events[:20]):
        w.discharge(f"tinterpolate.no_nonfinite_value[{k}]", assume, V.z_not(ev), concretize=conc)
    for ob in it.obligations:
        if ob.kind == "zero-division":
            continue
        w.discharge(f"tinterpolate.{ob.kind}@{ob.where}", assume, ob.claim, guard=ob.guard, concretize=conc)


def w_accessor(w, cfg):
    """whitint: int16 requirement, output length = number of distinct labels, newtime dimension."""
    from . import xr_stubs as X
    from pysym.interp import Instance
    from pysym.lib import native
    it = C.new_interp(policy="exact")
    st = State()
    xs = [z3.Int(f"x{j}") for j in range(4)]
    template = [1, 0, 0, 1, 0, 0, 1, 0, 0, 1, 0, 0]
    labels = [1] * 6 + [2] * 6
    calls = []

    @native
    def apply_ufunc(it_, st_, func, *args, **kw):
        calls.append((func.name, args, kw))
        return X.StubDA([z3.Int("o0"), z3.Int("o1")], ("newtime",), [0, 1], dtype="int16", core="newtime")
    it.lib_overrides["xarray.apply_ufunc"] = apply_ufunc
    cls = it.get_function("hdc.algo.accessors", "WhittakerSmoother")
    cls.link_bases(it)
    for dt, want_raise in (("int16", False), ("float32", True)):
        calls.clear()
        inst = Instance(cls)
        inst.fields["_obj"] = X.StubDA(xs, ("time",), list(range(4)), dtype=dt)
        st = State()
        la = it.new_array(st, (12,), "int32", cells=labels)
        ta = it.new_array(st, (12,), "float64", cells=template)
        it.call_function(st, cls.methods["whitint"], [inst], {"labels_daily": la, "template": ta})
        raised = V.z_or(*[g for g, k, m in st.exc_list if k == "NotImplementedError"])
        if want_raise:
            w.discharge("whitint.rejects_non_int16", [], raised)
        else:
            ok = len(calls) == 1 and calls[0][0] == "tinterpolate"
            if ok:
                _, args, kw = calls[0]
                ok = (hasattr(args[3], "shape") and args[3].shape == (2,) and list(kw.get("output_core_dims", [[]])[0]) == ["newtime"]
                      and (kw.get("dask_gufunc_kwargs") or {}).get("output_sizes") == {"newtime": 2})
            w.discharge("whitint.one_output_per_distinct_label", [], z3.BoolVal(bool(ok)))
    w.res.encoded.update(it.encoded)


def w_strides(w, cfg):
    """The kernel is handed whatever 1-d views the caller has (a column of a calendar table, every second element ...): no argument
    may be declared with a fixed memory layout, or the compiled loop reads the wrong cells of a strided view."""
    from pysym.sig import gufunc_contiguous_args
    it = C.new_interp(policy="exact")
    fn = it.get_function("hdc.algo.ops.tinterpolate", "tinterpolate")
    w.res.encoded.update(it.encoded)
    fixed = gufunc_contiguous_args(fn)
    n = z3.Int("stride")
    w.discharge("tinterpolate.arguments_accept_any_stride", [n >= 2], z3.BoolVal(not fixed),
                concretize=lambda m: {"name": "strided", "x": [120, 340, 560, 780], "template": [1, 0, 0, 1, 1, 0, 1, 0], "labels": [1, 1, 1, 1, 2, 2, 2, 2],
                                      "mode": "strided", "declared": [t for _, _, t in fixed], "stride": C.model_value(m, n)})


def worker(w, cfg):
    if cfg["kind"] == "accessor":
        return w_accessor(w, cfg)
    if cfg["kind"] == "strides":
        return w_strides(w, cfg)
    return w_layout(w, cfg)


def configs(tier):
    cf = []
    for name, template, labels in layouts(tier):
        for mode in ("general", "constant", "linear"):
            if len(template) > 100 and mode == "general" and len(template) > 250:
                continue
            cf.append({"kind": "layout", "name": name, "template": template, "labels": labels, "mode": mode})
    cf.append({"kind": "accessor"})
    cf.append({"kind": "strides"})
    return cf


def validate(chk, seed):
    import random
    rnd = random.Random(seed)
    for name, template, labels in layouts("quick"):
        n = sum(template)
        x = [rnd.randint(-500, 9000) for _ in range(n)]
        it = C.new_interp(concrete=True)
        fn = it.get_function("hdc.algo.ops.tinterpolate", "tinterpolate")
        st = State()
        runs = runs_of(labels)
        out = C.make_out(it, st, (len(runs),), "int16")
        it.call_function(st, fn, [it.new_array(st, (n,), "int16", cells=list(x)), it.new_array(st, (len(template),), "float64", cells=[float(t) for t in template]),
                                  it.new_array(st, (len(labels),), "int32", cells=list(labels)), it.new_array(st, (len(runs),), "uint8", cells=[0] * len(runs)), out])
        mine = C.out_values(it, st, out)[0]
        real = chk.replayer.call("call", fn="hdc.algo.ops:tinterpolate",
                                 args=[{"nd": x, "dtype": "int16"}, {"nd": [float(t) for t in template], "dtype": "float64"},
                                       {"nd": labels, "dtype": "int32"}, {"nd": [0] * len(runs), "dtype": "uint8"}])["value"]
        # lambda = 1e-5 makes the float64 solve ill-conditioned over many days: a unit of slack at rounding boundaries
        ok = len(mine) == len(real) and all(abs(a - b) <= 1 for a, b in zip(mine, real))
        chk.validation["cases"] += 1
        if "tinterpolate" not in chk.validation["functions"]:
            chk.validation["functions"].append("tinterpolate")
        if not ok:
            chk.validation["mismatches"] += 1
            chk.notes.append(f"tinterpolate translator validation mismatch: {mine} vs {real}")


def replay_candidate(chk, c):
    r = chk.replayer.call("c20_tinterpolate", **c["input"])
    return bool(r["violates"]), r


def main(tier, seed, nproc=None):
    chk = C.Check(PID, tier, seed)
    chk.assumptions = ["observations are int16 integers with |x| <= 10000 (symbolic); template, labels, lambda = 1e-5 are configuration",
                       "floats are exact reals: the conditioning of the float64 solve over thousands of days is outside the claim"]
    chk.bounds = {"layouts": [n for n, _, _ in layouts(tier)], "modes": "general (period mean of the curve defined by its normal equations), constant, linear in day"}
    chk.outside = ["daily length beyond 60 (quick) / 400 (thorough)", "float64 conditioning"]
    validate(chk, seed)
    chk.run(worker, configs(tier), nproc)
    chk.confirm(lambda c: replay_candidate(chk, c))
    return chk.finish(
        rule="per mark/label layout and mode: one query per output period (value), outputs written, inputs not written, index bounds; "
             "non-trivial = >= 1 free variable; distinct by goal hash",
        explanation="tinterpolate (with ws2d inlined, lambda = 1e-5 as in the source) executed symbolically on the observations; z3 (QF_LIRA) "
                    "decides that each output is the half-even rounding of the period mean of the curve defined by the normal equations")


def replay(path):
    chk = C.Check(PID, "quick", 0)
    c = json.load(open(path))
    ok, detail = replay_candidate(chk, c)
    chk.replayer.close()
    print(json.dumps(detail, default=str)[:2000])
    if ok:
        print(f"VIOLATION property={PID} replay={path}")
        return 1
    return 0
