"""Symbolic-schedule model checking of the real `lazycompile` wrapper (C12, concurrent first use).

The wrapper's source is read from /repo on every run. Each thread executes the wrapper body symbolically: every read of a
variable shared through the closure returns a fresh unknown, every write / compile / call is an event with a path guard.
A schedule is an assignment of distinct integer time stamps to all events (program order kept inside a thread, lock
sections mutually exclusive); reads see the latest earlier write. z3 decides, over ALL schedules of N threads, that every
call goes to a compiled function (never None, never a placeholder) and that every thread does reach its call.

Supported statements: nonlocal, if / else on shared or local names (`is None`, `is not None`, truthiness, `not`, ==, !=),
assignment of a name / constant / `internal_decorator(f)` (a compile) to a name, `with <lock>:`, `lock.acquire()` (blocking or
non-blocking as a condition) / `lock.release()`, try / finally, `return <callee>(*args, **kwds)`.
Anything else raises Unsupported (harness error, never a verdict).

Granularity: one closure-cell read or write is atomic (CPython GIL); the compile itself is thread-local and Numba's own
compile lock is outside the model.
"""
import ast
import hashlib
import os

import z3

from pysym.vals import Unsupported

NONE = 0


class Ev:
    __slots__ = ("kind", "var", "val", "guard", "ts", "thread", "lock", "idx")

    def __init__(self, kind, thread, guard, var=None, val=None, lock=None):
        self.kind, self.thread, self.guard, self.var, self.val, self.lock = kind, thread, guard, var, val, lock
        self.ts = None
        self.idx = None


def load_wrapper(repo):
    path = os.path.join(repo, "hdc", "algo", "ops", "_helper.py")
    src = open(path).read()
    tree = ast.parse(src)
    outer = [n for n in tree.body if isinstance(n, ast.FunctionDef) and n.name == "lazycompile"]
    if not outer:
        raise Unsupported("lazycompile not found in _helper.py")
    outer = outer[0]
    deco_arg = outer.args.args[0].arg
    mid = [n for n in outer.body if isinstance(n, ast.FunctionDef)]
    if len(mid) != 1:
        raise Unsupported("lazycompile: expected one nested decorator function")
    mid = mid[0]
    f_arg = mid.args.args[0].arg
    inner = [n for n in mid.body if isinstance(n, ast.FunctionDef)]
    if len(inner) != 1:
        raise Unsupported("lazycompile: expected one wrapper function")
    inner = inner[0]
    # what the decorator returns must be that wrapper
    ret = [n for n in mid.body if isinstance(n, ast.Return)]
    if not (ret and isinstance(ret[-1].value, ast.Name) and ret[-1].value.id == inner.name):
        raise Unsupported("lazycompile: the decorator does not return the wrapper")
    init = {}
    locks = set()
    consts = {}
    for scope in (outer, mid):
        for n in scope.body:
            if isinstance(n, ast.Assign) and len(n.targets) == 1 and isinstance(n.targets[0], ast.Name):
                nm = n.targets[0].id
                v = n.value
                if isinstance(v, ast.Constant):
                    init[nm] = ("const", v.value)
                elif isinstance(v, ast.Call) and ast.unparse(v.func).split(".")[-1] in ("Lock", "RLock"):
                    locks.add(nm)
                elif isinstance(v, ast.Call) and ast.unparse(v.func) == "object":
                    init[nm] = ("const", f"<object {nm}>")
                else:
                    raise Unsupported(f"lazycompile: initialiser of {nm}: {ast.unparse(v)}")
    return {"wrapper": inner, "deco": deco_arg, "f": f_arg, "init": init, "locks": locks,
            "hash": hashlib.sha256(ast.unparse(outer).encode()).hexdigest()[:16], "source": ast.unparse(outer)}


class Model:
    def __init__(self, info, nthreads, calls_per_thread=1):
        self.info = info
        self.n = nthreads
        self.calls = calls_per_thread
        self.events = []
        self.const_ids = {None: NONE}
        self.facts = []
        self.call_events = []
        self.fresh = 0
        self.shared = set(info["init"])   # enclosing-scope variables with an initial value
        self.ncompiled = 0

    def cid(self, v):
        key = (type(v).__name__, v)
        if v is None:
            return NONE
        if key not in self.const_ids:
            self.const_ids[key] = -(len(self.const_ids))
        return self.const_ids[key]

    def new_event(self, *a, **k):
        e = Ev(*a, **k)
        e.idx = len(self.events)
        e.ts = z3.Int(f"ts{e.idx}")
        self.events.append(e)
        return e

    # ---- symbolic execution of one activation
    def run_thread(self, t):
        for k in range(self.calls):
            self.exec_block(self.info["wrapper"].body, t, {}, z3.BoolVal(True), set())

    def truth(self, v):
        return v != NONE if not isinstance(v, bool) else z3.BoolVal(v)

    def eval(self, e, t, env, guard, nonlocals):
        if isinstance(e, ast.Constant):
            return z3.IntVal(self.cid(e.value)) if not isinstance(e.value, bool) else z3.IntVal(self.cid(e.value))
        if isinstance(e, ast.Name):
            if e.id in env and e.id not in nonlocals:
                return env[e.id]
            if e.id in self.shared:
                self.fresh += 1
                v = z3.Int(f"rd{self.fresh}")
                self.new_event("R", t, guard, var=e.id, val=v)
                return v
            if e.id == self.info["f"]:
                return z3.IntVal(self.cid("<the python function f>"))
            raise Unsupported(f"lazycompile wrapper: name {e.id}")
        if isinstance(e, ast.Call):
            fn = ast.unparse(e.func)
            if fn == self.info["deco"] and len(e.args) == 1 and ast.unparse(e.args[0]) == self.info["f"]:
                self.ncompiled += 1
                obj = z3.IntVal(1000 + self.ncompiled)      # a freshly compiled function object
                self.new_event("C", t, guard)
                return obj
            raise Unsupported(f"lazycompile wrapper: call {ast.unparse(e)}")
        raise Unsupported(f"lazycompile wrapper: expression {ast.unparse(e)}")

    def cond(self, e, t, env, guard, nonlocals):
        if isinstance(e, ast.UnaryOp) and isinstance(e.op, ast.Not):
            return z3.Not(self.cond(e.operand, t, env, guard, nonlocals))
        if isinstance(e, ast.BoolOp):
            # short-circuit: later operands are only evaluated (read) when needed
            vals = []
            g = guard
            for sub in e.values:
                c = self.cond(sub, t, env, g, nonlocals)
                vals.append(c)
                g = z3.And(g, c) if isinstance(e.op, ast.And) else z3.And(g, z3.Not(c))
            return z3.And(*vals) if isinstance(e.op, ast.And) else z3.Or(*vals)
        if isinstance(e, ast.Compare) and len(e.ops) == 1:
            a = self.eval(e.left, t, env, guard, nonlocals)
            b = self.eval(e.comparators[0], t, env, guard, nonlocals)
            op = e.ops[0]
            if isinstance(op, (ast.Is, ast.Eq)):
                return a == b
            if isinstance(op, (ast.IsNot, ast.NotEq)):
                return a != b
            raise Unsupported(f"lazycompile wrapper: comparison {ast.unparse(e)}")
        if isinstance(e, ast.Call) and self._lock_call(e) and self._lock_call(e)[1] == "acquire":
            lk, _, blocking = self._lock_call(e)
            if blocking:
                self.new_event("ACQ", t, guard, lock=lk)
                return z3.BoolVal(True)
            self.fresh += 1
            got = z3.Bool(f"got{self.fresh}")
            self.new_event("TRY", t, guard, lock=lk, val=got)
            return got
        v = self.eval(e, t, env, guard, nonlocals)
        # truthiness: None and False are falsy, compiled functions and other objects truthy
        return z3.And(v != NONE, v != self.cid(False))

    def _lock_call(self, e):
        """lock.acquire(...) / lock.release() on a lock of the enclosing scope -> (lock, method, blocking)."""
        if isinstance(e, ast.Call) and isinstance(e.func, ast.Attribute) and isinstance(e.func.value, ast.Name) \
                and e.func.value.id in self.info["locks"] and e.func.attr in ("acquire", "release"):
            blocking = True
            if e.args and isinstance(e.args[0], ast.Constant):
                blocking = bool(e.args[0].value)
            for kw in e.keywords:
                if kw.arg == "blocking" and isinstance(kw.value, ast.Constant):
                    blocking = bool(kw.value.value)
                elif kw.arg == "timeout":
                    raise Unsupported("lock.acquire with a timeout")
            return e.func.value.id, e.func.attr, blocking
        return None

    def exec_block(self, body, t, env, guard, nonlocals):
        """-> guard under which control falls through the end of the block."""
        for s in body:
            if isinstance(s, ast.Nonlocal):
                nonlocals |= set(s.names)
                self.shared |= set(s.names)
                for nm in s.names:
                    if nm not in self.info["init"]:
                        raise Unsupported(f"nonlocal {nm} has no initial value in the enclosing scope")
            elif isinstance(s, ast.Expr) and isinstance(s.value, ast.Constant):
                pass
            elif isinstance(s, ast.Pass):
                pass
            elif isinstance(s, ast.Expr) and self._lock_call(s.value):
                lk, meth, blocking = self._lock_call(s.value)
                if meth == "release":
                    self.new_event("REL", t, guard, lock=lk)
                elif blocking:
                    self.new_event("ACQ", t, guard, lock=lk)
                else:
                    raise Unsupported("result of a non-blocking acquire is discarded")
            elif isinstance(s, ast.Try) and not s.handlers and not s.orelse:
                g_body = self.exec_block(s.body, t, env, guard, nonlocals)
                g_fin = self.exec_block(s.finalbody, t, env, guard, nonlocals)
                guard = z3.And(g_body, g_fin)
            elif isinstance(s, ast.If):
                c = self.cond(s.test, t, env, guard, nonlocals)
                env_t, env_f = dict(env), dict(env)
                g_t = self.exec_block(s.body, t, env_t, z3.And(guard, c), nonlocals)
                g_f = self.exec_block(s.orelse, t, env_f, z3.And(guard, z3.Not(c)), nonlocals)
                for k in set(env_t) | set(env_f):
                    a, b = env_t.get(k), env_f.get(k)
                    if a is None or b is None:
                        env[k] = a if a is not None else b
                    else:
                        env[k] = z3.If(c, a, b)
                guard = z3.Or(g_t, g_f)
            elif isinstance(s, ast.Assign) and len(s.targets) == 1 and isinstance(s.targets[0], ast.Name):
                v = self.eval(s.value, t, env, guard, nonlocals)
                nm = s.targets[0].id
                if nm in nonlocals:
                    self.new_event("W", t, guard, var=nm, val=v)
                else:
                    env[nm] = v
            elif isinstance(s, ast.With) and len(s.items) == 1 and isinstance(s.items[0].context_expr, ast.Name) \
                    and s.items[0].context_expr.id in self.info["locks"]:
                lk = s.items[0].context_expr.id
                self.new_event("ACQ", t, guard, lock=lk)
                g_in = self.exec_block(s.body, t, env, guard, nonlocals)
                # the lock is released on every exit of the block (fall-through or return)
                self.new_event("REL", t, guard, lock=lk)
                guard = g_in
            elif isinstance(s, ast.Return):
                v = s.value
                if not (isinstance(v, ast.Call) and isinstance(v.func, ast.Name)):
                    raise Unsupported(f"lazycompile wrapper: return {ast.unparse(s)}")
                tgt = self.eval(v.func, t, env, guard, nonlocals)
                ev = self.new_event("CALL", t, guard, val=tgt)
                self.call_events.append(ev)
                guard = z3.BoolVal(False)
            else:
                raise Unsupported(f"lazycompile wrapper: statement {ast.unparse(s)[:60]}")
        return guard

    # ---- the schedule
    def build(self):
        per_thread = {}
        fall = {}
        for t in range(self.n):
            start = len(self.events)
            for k in range(self.calls):
                g = self.exec_block(self.info["wrapper"].body, t, {}, z3.BoolVal(True), set())
                fall.setdefault(t, []).append(g)
            per_thread[t] = self.events[start:]
        cons = []
        ts = [e.ts for e in self.events]
        cons.append(z3.Distinct(*ts) if len(ts) > 1 else z3.BoolVal(True))
        for t, evs in per_thread.items():
            for a, b in zip(evs, evs[1:]):
                cons.append(a.ts < b.ts)
        # reads-from
        for r in [e for e in self.events if e.kind == "R"]:
            ws = [e for e in self.events if e.kind == "W" and e.var == r.var]
            kind, c0 = self.info["init"][r.var]
            init = z3.IntVal(self.cid(c0))
            none_before = z3.And(*[z3.Not(z3.And(w.guard, w.ts < r.ts)) for w in ws]) if ws else z3.BoolVal(True)
            cons.append(z3.Implies(none_before, r.val == init))
            for w in ws:
                latest = z3.And(w.guard, w.ts < r.ts,
                                *[z3.Not(z3.And(w2.guard, w2.ts < r.ts, w2.ts > w.ts)) for w2 in ws if w2 is not w])
                cons.append(z3.Implies(latest, r.val == w.val))
        # locks: critical sections of different threads do not overlap
        secs = []
        stack = {}
        for e in self.events:
            if e.kind in ("ACQ", "TRY"):
                stack.setdefault((e.thread, e.lock), []).append(e)
            elif e.kind == "REL":
                st_ = stack.get((e.thread, e.lock))
                if not st_:
                    raise Unsupported("release of a lock that was not acquired in the wrapper")
                a = st_.pop()
                secs.append((a, e))
        if any(v for v in stack.values()):
            raise Unsupported("a lock acquired in the wrapper is not released on every path")

        def active(a):
            return z3.And(a.guard, a.val) if a.kind == "TRY" else a.guard
        for i, (a1, r1) in enumerate(secs):
            for (a2, r2) in secs[i + 1:]:
                if a1.thread != a2.thread and a1.lock == a2.lock:
                    cons.append(z3.Implies(z3.And(active(a1), active(a2)), z3.Or(r1.ts < a2.ts, r2.ts < a1.ts)))
        # a non-blocking acquire succeeds exactly when no other thread holds the lock at that instant
        for (a, r) in secs:
            if a.kind == "TRY":
                held = [z3.And(active(a2), a2.ts < a.ts, a.ts < r2.ts) for (a2, r2) in secs if a2.thread != a.thread and a2.lock == a.lock]
                cons.append(a.val == z3.Not(z3.Or(*held)) if held else a.val)
        claims = []
        for ev in self.call_events:
            claims.append((f"thread{ev.thread}.call_target_is_a_compiled_function", z3.Implies(ev.guard, ev.val >= 1000)))
        for t, gs in fall.items():
            for k, g in enumerate(gs):
                claims.append((f"thread{t}.activation{k}.always_reaches_its_call", z3.Not(g)))
        return cons, claims

    def describe(self, m):
        out = []
        for e in sorted(self.events, key=lambda e: m.eval(e.ts, model_completion=True).as_long()):
            if not z3.is_true(m.eval(e.guard, model_completion=True)):
                continue
            val = m.eval(e.val, model_completion=True) if e.val is not None else None
            val = (val.as_long() if z3.is_int_value(val) else str(val)) if val is not None else None
            out.append({"thread": e.thread, "event": e.kind, "var": e.var or e.lock, "value": val})
        return out
