"""Shared harness infrastructure: queries, parallel configurations, replay client, evidence, known findings."""
from __future__ import annotations

import hashlib
import json
import multiprocessing as mp
import os
import subprocess
import sys
import time
import traceback
from fractions import Fraction

import z3

VERIF = os.path.dirname(os.path.dirname(os.path.abspath(__file__)))
REPO = os.environ.get("HDC_REPO", "/repo")
VENV_PY = os.environ.get("HDC_VENV_PY", "/venv/bin/python")
EXIT_OK, EXIT_VIOLATION, EXIT_HARNESS = 0, 1, 3

sys.path.insert(0, VERIF)
from pysym import vals as V  # noqa: E402
from pysym.vals import Unsupported  # noqa: E402


class HarnessError(Exception):
    pass


# ---------------------------------------------------------------- solver
def term_hash(t):
    return hashlib.sha256(t.sexpr().encode()).hexdigest()[:16]


def free_vars(t, limit=10000):
    seen, out, todo = set(), set(), [t]
    while todo and len(seen) < limit:
        x = todo.pop()
        i = x.get_id()
        if i in seen:
            continue
        seen.add(i)
        if z3.is_const(x) and x.decl().kind() == z3.Z3_OP_UNINTERPRETED:
            out.add(str(x))
        todo.extend(x.children())
    return out


def abstract_monomials(t):
    """Sum-of-monomials normal form, then every non-linear monomial becomes a fresh real variable.

    The result over-approximates the original formula (sound for 'unsat')."""
    t = z3.simplify(t, som=True, som_blowup=10**7)
    table, memo = {}, {}

    def walk(x):
        i = x.get_id()
        if i in memo:
            return memo[i]
        if z3.is_app(x) and x.decl().kind() == z3.Z3_OP_MUL:
            coeff, factors = [], []
            for c in x.children():
                (coeff if (z3.is_rational_value(c) or z3.is_int_value(c)) else factors).append(c)
            if len(factors) >= 2:
                key = tuple(sorted(f.sexpr() for f in factors))
                v = table.get(key)
                if v is None:
                    v = z3.Real(f"mono!{len(table)}") if z3.is_real(x) else z3.Int(f"mono!{len(table)}")
                    table[key] = v
                r = v
                for c in coeff:
                    r = c * r
                memo[i] = r
                return r
        if z3.is_app(x) and x.num_args() > 0:
            kids = [walk(c) for c in x.children()]
            try:
                r = x.decl()(*kids)
            except z3.Z3Exception:
                r = x
            memo[i] = r
            return r
        memo[i] = x
        return x
    return walk(t), len(table)


CROSS = {"rate": 0}   # every k-th unsat query (by goal hash) is re-decided by cvc5; 0 = off (quick tier)


def cvc5_decide(goal, timeout_ms=20000):
    """Re-decide a z3 goal with the cvc5 wheel (SMT-LIB2 dump of the z3 solver). Returns 'sat' / 'unsat' / 'unknown' / 'error:...'."""
    try:
        import cvc5
        zs = z3.Solver()
        zs.add(goal)
        smt = zs.to_smt2()
        tm = cvc5.TermManager()
        slv = cvc5.Solver(tm)
        slv.setOption("tlimit-per", str(int(timeout_ms)))
        slv.setLogic("ALL")
        ip = cvc5.InputParser(slv)
        ip.setStringInput(cvc5.InputLanguage.SMT_LIB_2_6, smt, "q")
        sm = ip.getSymbolManager()
        res = "unknown"
        while True:
            cmd = ip.nextCommand()
            if cmd.isNull():
                break
            out = cmd.invoke(slv, sm).strip()
            if out in ("sat", "unsat", "unknown"):
                res = out
        return res
    except Exception as e:  # noqa
        return f"error:{type(e).__name__}"


class Q:
    """One solver query: assumptions /\\ guard /\\ not claim."""

    def __init__(self, name, assumptions, guard, claim, extra=None):
        self.name = name
        self.assumptions = assumptions
        self.guard = guard
        self.claim = claim
        self.extra = extra or []


SOM = {"on": False}


def check_sat(assertions, timeout_ms, want_model=True):
    s = z3.Solver()
    s.set("timeout", int(timeout_ms))
    for a in assertions:
        a = V.simp_bool(a)
        if a is True:
            continue
        if a is False:
            return "unsat", None, 0.0
        a = V.to_z3(a)
        if SOM["on"]:
            # polynomial normal form (sum of monomials) by z3's rewriter: identities fold to true/false
            a = z3.simplify(a, som=True, som_blowup=10**7)
            if z3.is_false(a):
                return "unsat", None, 0.0
        s.add(a)
    t = time.time()
    try:
        r = str(s.check())
    except z3.Z3Exception as e:  # pragma: no cover
        return "unknown", None, time.time() - t
    dt = time.time() - t
    m = s.model() if (r == "sat" and want_model) else None
    return r, m, dt


def check_unsat_fresh(assertions, timeout_ms, seed=7):
    """Second opinion for an undecided query: the same assertions translated into a fresh z3 context (new AST numbering, so
    other orderings inside the arithmetic solver) with another random seed. Only 'unsat' is used."""
    ctx = z3.Context()
    s = z3.Solver(ctx=ctx)
    s.set("timeout", int(timeout_ms))
    s.set("random_seed", seed)
    for a in assertions:
        a = V.simp_bool(a)
        if a is True:
            continue
        if a is False:
            return "unsat", 0.0
        s.add(V.to_z3(a).translate(ctx))
    t = time.time()
    try:
        r = str(s.check())
    except z3.Z3Exception:  # pragma: no cover
        r = "unknown"
    return r, time.time() - t


def model_value(m, t, default=0):
    """Evaluate a term in a model -> Fraction / int / bool."""
    if not V.is_sym(t):
        return t
    v = m.eval(t, model_completion=True)
    if z3.is_int_value(v):
        return v.as_long()
    if z3.is_rational_value(v):
        return Fraction(v.numerator_as_long(), v.denominator_as_long())
    if z3.is_true(v):
        return True
    if z3.is_false(v):
        return False
    if z3.is_algebraic_value(v):
        a = v.approx(20)
        return Fraction(a.numerator_as_long(), a.denominator_as_long())
    return default


# ---------------------------------------------------------------- replay client
class Replayer:
    """Long-lived /venv subprocess executing named actions of replay/actions.py against the real code."""

    def __init__(self):
        self.p = None

    def start(self):
        if self.p is not None and self.p.poll() is None:
            return
        env = dict(os.environ)
        env["HDC_REPO"] = REPO
        env.setdefault("NUMBA_NUM_THREADS", "1")
        self.p = subprocess.Popen([VENV_PY, os.path.join(VERIF, "replay", "server.py")], stdin=subprocess.PIPE,
                                  stdout=subprocess.PIPE, stderr=subprocess.DEVNULL, text=True, cwd=REPO, env=env)

    def call(self, action, **params):
        self.start()
        self.p.stdin.write(json.dumps({"action": action, "params": params}) + "\n")
        self.p.stdin.flush()
        while True:
            line = self.p.stdout.readline()
            if not line:
                raise HarnessError(f"replay server died during {action}")
            if line.startswith("@@"):
                res = json.loads(line[2:])
                break
        if "error" in res:
            raise HarnessError(f"replay action {action} failed: {res['error']}")
        return res["result"]

    def close(self):
        if self.p is not None:
            try:
                self.p.stdin.close()
                self.p.wait(timeout=5)
            except Exception:
                self.p.kill()
            self.p = None


def jsonable(x):
    if isinstance(x, Fraction):
        return float(x) if x.denominator != 1 else int(x.numerator)
    if isinstance(x, (list, tuple)):
        return [jsonable(i) for i in x]
    if isinstance(x, dict):
        return {str(k): jsonable(v) for k, v in x.items()}
    if isinstance(x, float):
        if x != x:
            return "nan"
        if x in (float("inf"), float("-inf")):
            return "inf" if x > 0 else "-inf"
        return x
    if isinstance(x, (int, str, bool)) or x is None:
        return x
    return str(x)


# ---------------------------------------------------------------- known findings
def load_known(pid):
    path = os.path.join(VERIF, "known_findings.json")
    if not os.path.exists(path):
        return {}
    data = json.load(open(path))
    out = {}
    for e in data.get("findings", []):
        if e.get("property") == pid and e.get("status", "open") == "open":
            out[e["id"]] = e
    return out


# ---------------------------------------------------------------- result aggregation
class Result:
    """What one worker (configuration) reports back; plain JSON-able data only."""

    def __init__(self):
        self.queries = []      # dicts: name, verdict, time, hash, nvars
        self.candidates = []   # dicts: obligation, config, input, known (finding id or None)
        self.samples = []
        self.encoded = {}
        self.stubs = set()
        self.errors = []
        self.folded = 0
        self.vacuity = []      # dicts: name, verdict

    def to_dict(self):
        return {"queries": self.queries, "candidates": self.candidates, "samples": self.samples, "encoded": self.encoded,
                "stubs": sorted(self.stubs), "errors": self.errors, "folded": self.folded, "vacuity": self.vacuity}


class Worker:
    """Helper used inside a worker process to discharge obligations of one configuration."""

    def __init__(self, pid, config, timeout_ms, known):
        self.pid = pid
        self.config = config
        self.timeout_ms = timeout_ms
        self.known = known            # finding id -> entry
        self.res = Result()

    def discharge(self, name, assumptions, claim, guard=True, concretize=None, known_preds=None, sample=False,
                  lemmas=(), witness_bounds=None, first_timeout_ms=None, abstract_nonlinear=False, retry_fresh_ms=None):
        """Decide `assumptions /\\ guard => claim`.

        known_preds: {finding_id: z3 predicate}; predicates of findings listed in known_findings.json are excluded from
        the main query and queried separately (a confirmed hit there is reported as KNOWN-FINDING).
        concretize: model -> JSON-able input for the replayer.
        """
        claim = V.simp_bool(claim)
        guard = V.simp_bool(guard)
        if claim is True or guard is False:
            self.res.folded += 1
            return "folded"
        base = list(assumptions) + list(lemmas) + [guard]
        neg = V.z_not(claim)
        excl = []
        listed = {}
        for fid, pred in (known_preds or {}).items():
            if fid in self.known:
                listed[fid] = pred
                excl.append(V.z_not(pred))
        goal = z3.And(*[V.to_z3(x) for x in base + [neg] + excl if V.simp_bool(x) is not True]) \
            if any(V.simp_bool(x) is not True for x in base + [neg] + excl) else z3.BoolVal(True)
        h = term_hash(goal)
        nv = len(free_vars(goal))
        verdict, model, dt = None, None, 0.0
        if abstract_nonlinear:
            ag, nmono = abstract_monomials(goal)
            va, _, dta = check_sat([ag], first_timeout_ms or self.timeout_ms, want_model=False)
            dt += dta
            if va == "unsat":
                verdict = "unsat"
        if verdict is None:
            verdict, model, dt2 = check_sat([goal], first_timeout_ms or self.timeout_ms)
            dt += dt2
        if verdict not in ("unsat", "sat") and retry_fresh_ms:
            v2, dt2 = check_unsat_fresh([goal], retry_fresh_ms)
            dt += dt2
            if v2 == "unsat":
                verdict = "unsat"
        if verdict not in ("unsat", "sat") and witness_bounds:
            # not decided quickly (non-linear): look for a witness inside small value bounds; a model is a counterexample
            # whatever the bounds, while 'unsat' under bounds decides nothing -> stays inconclusive
            for wbs in (witness_bounds if witness_bounds and isinstance(witness_bounds[0], (list, tuple)) else [witness_bounds]):
                v2, m2, dt2 = check_sat([goal] + list(wbs), min(self.timeout_ms, 15000))
                dt += dt2
                if v2 == "sat":
                    verdict, model = "sat", m2
                    break
        q = {"name": name, "verdict": verdict, "time": round(dt, 4), "hash": h, "nvars": nv, "config": self.config}
        if verdict == "unsat" and CROSS["rate"] and int(h, 16) % CROSS["rate"] == 0 and not SOM["on"] and not abstract_nonlinear:
            q["cvc5"] = cvc5_decide(goal)
        self.res.queries.append(q)
        if sample and len(self.res.samples) < 3:
            txt = goal.sexpr()
            self.res.samples.append({"obligation": name, "config": self.config, "verdict": verdict,
                                     "negated_goal_smt2": txt[:1500] + ("..." if len(txt) > 1500 else "")})
        if verdict == "sat":
            cand = {"obligation": name, "config": self.config, "known": None,
                    "input": jsonable(concretize(model)) if concretize else None}
            self.res.candidates.append(cand)
        for fid, pred in listed.items():
            v2, m2, dt2 = check_sat(base + [neg, pred], first_timeout_ms or self.timeout_ms)
            if v2 not in ("unsat", "sat") and witness_bounds:
                for wbs in (witness_bounds if isinstance(witness_bounds[0], (list, tuple)) else [witness_bounds]):
                    v3, m3, dt3 = check_sat(base + [neg, pred] + list(wbs), min(self.timeout_ms, 15000))
                    if v3 == "sat":
                        v2, m2 = "sat", m3
                        break
            self.res.queries.append({"name": name + f"[known:{fid}]", "verdict": v2, "time": round(dt2, 4),
                                     "hash": term_hash(V.to_z3(pred)) + h[:4], "nvars": nv, "config": self.config,
                                     "known_probe": True})
            if v2 == "sat":
                self.res.candidates.append({"obligation": name, "config": self.config, "known": fid,
                                            "input": jsonable(concretize(m2)) if concretize else None})
        return verdict

    def vacuity(self, name, assumptions, guard=True, lemmas=()):
        """Reachability twin: assumptions /\\ guard must be satisfiable."""
        v, _, dt = check_sat(list(assumptions) + list(lemmas) + [guard], self.timeout_ms, want_model=False)
        self.res.vacuity.append({"name": name, "verdict": v, "config": self.config, "time": round(dt, 4)})
        return v


def _run_worker(args):
    fn, pid, config, timeout_ms, known = args
    w = Worker(pid, config, timeout_ms, known)
    try:
        fn(w, config)
    except Unsupported as e:
        w.res.errors.append({"config": config, "error": f"Unsupported: {e}", "trace": traceback.format_exc()[-1500:]})
    except Exception as e:  # noqa
        w.res.errors.append({"config": config, "error": f"{type(e).__name__}: {e}", "trace": traceback.format_exc()[-1500:]})
    from pysym import lib
    w.res.stubs |= set(lib.STUBS_USED)
    return w.res.to_dict()


def run_configs(fn, pid, configs, timeout_ms, known, nproc=None):
    nproc = nproc or min(16, max(1, (os.cpu_count() or 2)))
    jobs = [(fn, pid, c, timeout_ms, known) for c in configs]
    if nproc == 1 or len(jobs) <= 1:
        return [_run_worker(j) for j in jobs]
    ctx = mp.get_context("fork")
    with ctx.Pool(min(nproc, len(jobs)), maxtasksperchild=50) as pool:
        return pool.map(_run_worker, jobs, chunksize=1)


# ---------------------------------------------------------------- the check driver
class Check:
    def __init__(self, pid, tier, seed, level="model_checking"):
        self.pid, self.tier, self.seed, self.level = pid, tier, seed, level
        self.t0 = time.time()
        self.known = load_known(pid)
        self.results = []
        self.assumptions = []
        self.bounds = {}
        self.outside = []
        self.validation = {"cases": 0, "mismatches": 0, "functions": []}
        self.replayer = Replayer()
        self.violations = []
        self.known_hits = []
        self.unconfirmed = []
        self.replay_errors = 0
        self.notes = []
        self.functions = {}
        self.timeout_ms = 60000 if tier == "quick" else 300000
        CROSS["rate"] = 0 if tier == "quick" else 20   # thorough: a stratified 5 % of the unsat queries also go to cvc5

    def run(self, fn, configs, nproc=None):
        res = run_configs(fn, self.pid, configs, self.timeout_ms, self.known, nproc)
        self.results.extend(res)
        return res

    # -- translator validation (DESIGN 4.6)
    def validate(self, name, pysym_out, real_out, tol=1e-9):
        self.validation["cases"] += 1
        if name not in self.validation["functions"]:
            self.validation["functions"].append(name)
        ok = _close(pysym_out, real_out, tol)
        if not ok:
            self.validation["mismatches"] += 1
            self.notes.append(f"translator validation mismatch for {name}: pysym={pysym_out!r} real={real_out!r}")
        return ok

    # -- candidates -> replay
    def confirm(self, replay_fn):
        """replay_fn(candidate) -> (confirmed: bool, detail: dict)."""
        seen = set()
        for r in self.results:
            for c in r["candidates"]:
                key = json.dumps([c["obligation"], c["input"], c["known"]], sort_keys=True, default=str)
                if key in seen:
                    continue
                seen.add(key)
                try:
                    ok, detail = replay_fn(c)
                except HarnessError as e:
                    # a crashing replay action would silently lose a candidate: that is a harness error (exit 3), not "unconfirmed"
                    self.notes.append(f"replay error: {e}")
                    self.replay_errors += 1
                    ok, detail = False, {"error": str(e)}
                entry = {"obligation": c["obligation"], "config": c["config"], "input": c["input"], "detail": detail}
                if ok:
                    if c["known"]:
                        self.known_hits.append((c["known"], entry))
                    else:
                        self.violations.append(entry)
                else:
                    self.unconfirmed.append(entry)

    def finish(self, rule, explanation, trusted=None):
        self.replayer.close()
        queries = [q for r in self.results for q in r["queries"]]
        errors = [e for r in self.results for e in r["errors"]]
        vac = [v for r in self.results for v in r["vacuity"]]
        encoded = {}
        stubs = set()
        for r in self.results:
            encoded.update(r["encoded"])
            stubs |= set(r["stubs"])
        samples = [s for r in self.results for s in r["samples"]][:6]
        n_unsat = sum(1 for q in queries if q["verdict"] == "unsat")
        n_sat = sum(1 for q in queries if q["verdict"] == "sat")
        n_unk = sum(1 for q in queries if q["verdict"] not in ("sat", "unsat"))
        nontrivial = {q["hash"] for q in queries if q["nvars"] >= 1}
        vac_bad = [v for v in vac if v["verdict"] != "sat"]
        cross = [q for q in queries if "cvc5" in q]
        cross_disagree = [q for q in cross if q["cvc5"] == "sat"]
        folded = sum(r["folded"] for r in self.results)
        solver_time = sum(q["time"] for q in queries)
        if not samples:
            samples = [{"query": q} for q in queries[:3]]
        # replays dir
        evid_dir = os.environ.get("VERIF_EVIDENCE_DIR", os.path.join(VERIF, "evidence"))   # override only used by tools/seed_sweep.sh
        rep_dir = os.path.join(evid_dir, "replays")
        os.makedirs(rep_dir, exist_ok=True)
        lines = []
        printed_known = set()
        for fid, entry in self.known_hits:
            if fid in printed_known:
                continue
            printed_known.add(fid)
            lines.append(f"KNOWN-FINDING: property={self.pid} {fid}: {self.known[fid]['description']} "
                         f"(reproduced on input {json.dumps(entry['input'], default=str)[:200]})")
        for i, v in enumerate(self.violations[:20]):
            path = os.path.join(rep_dir, f"{self.pid}-{i}.json")
            json.dump({"property": self.pid, **v}, open(path, "w"), indent=1, default=str)
            lines.append(f"VIOLATION property={self.pid} replay={path}")
        harness_error = bool(errors) or bool(vac_bad) or self.validation["mismatches"] > 0 or bool(cross_disagree) or self.replay_errors > 0
        if cross_disagree:
            self.notes.append(f"cvc5 disagrees with z3 on {len(cross_disagree)} queries, e.g. {cross_disagree[0]['name']}")
        ev = {
            "property_id": self.pid, "tier": self.tier, "seed": self.seed, "level": self.level,
            "coverage": {
                "evaluations": len(queries),
                "distinct_nontrivial": len(nontrivial),
                "rule": rule,
                "samples": samples,
                "obligations": len(queries) + folded,
                "discharged": n_unsat + folded,
                "obligations_folded_by_evaluator": folded,
                "solver_unsat": n_unsat, "solver_sat": n_sat, "solver_inconclusive": n_unk,
                "sat_confirmed_by_replay": len(self.violations) + len(self.known_hits),
                "sat_unconfirmed": len(self.unconfirmed),
                "unconfirmed_samples": self.unconfirmed[:3],
                "known_findings_reproduced": sorted(printed_known),
                "vacuity_checks": len(vac), "vacuity_failures": vac_bad[:5],
                "functions_encoded": encoded,
                "library_stubs": sorted(stubs),
                "bounds": self.bounds,
                "outside_the_claim": self.outside,
                "translator_validation": self.validation,
                "solver_time_s": round(solver_time, 2),
                "solver": f"z3 {z3.get_version_string()}",
                "cvc5_crosscheck": {"queries": len(cross), "agree_unsat": sum(1 for q in cross if q["cvc5"] == "unsat"),
                                    "cvc5_inconclusive": sum(1 for q in cross if q["cvc5"] not in ("sat", "unsat")),
                                    "disagreements": len(cross_disagree)},
                "explanation": explanation,
                "trusted_base": trusted or ["pysym evaluator (validated against the compiled kernels each run)", "z3"],
                "harness_errors": errors[:5],
                "notes": self.notes[:10],
                "traces_validated_against_impl": self.validation["cases"],
            },
            "assumptions": self.assumptions,
            "wall_s": round(time.time() - self.t0, 2),
            "violations": len(self.violations),
        }
        os.makedirs(evid_dir, exist_ok=True)
        json.dump(ev, open(os.path.join(evid_dir, f"{self.pid}.json"), "w"), indent=1, default=str)
        for ln in lines:
            print(ln)
        print(f"[{self.pid}] tier={self.tier} queries={len(queries)} unsat={n_unsat} sat={n_sat} unknown={n_unk} "
              f"folded={folded} violations={len(self.violations)} known={len(printed_known)} "
              f"unconfirmed={len(self.unconfirmed)} wall={ev['wall_s']}s")
        if harness_error:
            for e in errors[:5]:
                print(f"[{self.pid}] HARNESS ERROR: {e['error']} (config {e['config']})", file=sys.stderr)
                print(e.get("trace", ""), file=sys.stderr)
            for v in vac_bad[:5]:
                print(f"[{self.pid}] VACUITY FAILURE: {v}", file=sys.stderr)
            for n in self.notes[:5]:
                print(f"[{self.pid}] NOTE: {n}", file=sys.stderr)
        if self.violations:
            return EXIT_VIOLATION
        if harness_error:
            return EXIT_HARNESS
        return EXIT_OK


def _close(a, b, tol):
    if isinstance(a, (list, tuple)) and isinstance(b, (list, tuple)):
        return len(a) == len(b) and all(_close(x, y, tol) for x, y in zip(a, b))
    if isinstance(a, str) or isinstance(b, str):
        return str(a) == str(b)
    if a is None or b is None:
        return a is b
    try:
        fa, fb = float(a), float(b)
    except Exception:
        return a == b
    if fa != fa and fb != fb:
        return True
    if fa == fb:
        return True
    return abs(fa - fb) <= tol * max(1.0, abs(fa), abs(fb))


# ---------------------------------------------------------------- pysym helpers for harnesses
def new_interp(policy="uf", concrete=False, facts=None, **kw):
    from pysym.interp import Interp
    return Interp(repo=REPO, policy=policy, concrete=concrete, facts=facts, **kw)


def make_out(it, st, shape, dtype, tag="out"):
    """Uninitialised gufunc output buffer: arbitrary junk, flagged unwritten."""
    from pysym.vals import Partial
    from pysym.arr import INT_RANGES
    if isinstance(shape, int):
        shape = (shape,)
    n = 1
    for s in shape:
        n *= s
    if it.concrete:
        cells = [Partial(0, False, f"{tag}[{i}] (uninitialised output)") for i in range(n)]
    else:
        cells = [Partial(it.A.fresh(f"junk_{tag}", "int" if dtype in INT_RANGES else "real"), False,
                         f"{tag}[{i}] (uninitialised output)") for i in range(n)]
    return it.new_array(st, shape, dtype, cells=cells)


def out_values(it, st, arr):
    """-> (values, written_conditions)."""
    from pysym.vals import Partial
    vals, wr = [], []
    for p in arr.positions():
        c = st.heap[arr.bufid][p]
        if isinstance(c, Partial):
            vals.append(c.value)
            wr.append(c.defined)
        else:
            vals.append(c)
            wr.append(True)
    return vals, wr
