"""Driver: ./check <id> [--tier quick|thorough] [--replay file]."""
import argparse
import importlib
import os
import sys
import traceback

HERE = os.path.dirname(os.path.abspath(__file__))
sys.path.insert(0, os.path.dirname(HERE))
sys.setrecursionlimit(20000)


def main():
    ap = argparse.ArgumentParser()
    ap.add_argument("pid")
    ap.add_argument("--tier", default=os.environ.get("VERIF_TIER", "quick"), choices=["quick", "thorough"])
    ap.add_argument("--replay", default=None)
    ap.add_argument("--nproc", type=int, default=None)
    a = ap.parse_args()
    seed = int(os.environ.get("VERIF_SEED", "0") or 0)
    try:
        mod = importlib.import_module(f"harness.{a.pid}")
        if a.replay:
            rc = mod.replay(a.replay)
        else:
            rc = mod.main(a.tier, seed, a.nproc)
    except SystemExit:
        raise
    except Exception:
        traceback.print_exc()
        print(f"[{a.pid}] harness error (exit 3)", file=sys.stderr)
        rc = 3
    sys.exit(rc)


if __name__ == "__main__":
    main()
