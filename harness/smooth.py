"""Shared machinery for the Whittaker smoother properties (C02-C06, C14): symbolic set-up of one pixel, kernel calls
with the gufunc calling convention, reference models (refs/smooth_ref.py) run by the same evaluator."""
import itertools

import z3

from . import common as C
from pysym import vals as V
from pysym.interp import State
from pysym.sig import gufunc_signatures
from pysym.vals import Unsupported

KERNELS = {
    "ws2dgu": ("hdc.algo.ops.ws2dgu", ["y", "lmda", "nodata"]),
    "ws2dpgu": ("hdc.algo.ops.ws2dpgu", ["y", "lmda", "nodata", "p"]),
    "ws2doptv": ("hdc.algo.ops.ws2doptv", ["y", "nodata", "llas"]),
    "ws2doptvp": ("hdc.algo.ops.ws2doptvp", ["y", "nodata", "p", "llas"]),
    "ws2doptvplc": ("hdc.algo.ops.ws2doptvplc", ["y", "nodata", "p", "lc"]),
    "ws2dwcv": ("hdc.algo.ops.ws2dwcv", ["y", "nodata", "llas", "robust"]),
    "ws2dwcvp": ("hdc.algo.ops.ws2dwcvp", ["y", "nodata", "p", "llas", "robust"]),
}
NONFINITE_AWARE = {"ws2dgu", "ws2dpgu", "ws2dwcv", "ws2dwcvp"}


def new_interp(policy="uf", prune="facts"):
    it = C.new_interp(policy=policy)
    it.prune_mode = prune
    it.extra_roots["refs"] = C.VERIF
    it.assume_casts_in_range = True
    it.A.real_compare = True
    return it


class Pixel:
    """One symbolic pixel: valid cells are integer-valued unknowns, missing cells hold the placeholder."""

    def __init__(self, n, valid, tag="", bound=10000):
        self.n, self.valid = n, list(valid)
        self.xs = [z3.Int(f"x{tag}{i}") for i in range(n)]
        self.bound = bound

    def facts(self, nd):
        f = []
        for x, v in zip(self.xs, self.valid):
            if v:
                f += [x != nd, x >= -self.bound, x <= self.bound]
        return f

    def cells(self, nd, special=None):
        """special: None -> missing cells hold nd; 'nan' / 'inf' / '-inf' -> that non-finite value; 'mix-nan' / 'mix-inf' /
        'mix2-nan' ... -> the missing cells alternate between nd and the non-finite value (mix: first missing cell holds nd,
        mix2: first missing cell holds the non-finite value)."""
        kind = special.split("-", 1)[1] if special and special.startswith("mix") else special
        sp = {"nan": V.NAN, "inf": V.INF, "-inf": -V.INF}.get(kind)
        out, k = [], 0
        for x, v in zip(self.xs, self.valid):
            if v:
                out.append(z3.ToReal(x))
                continue
            use_sp = sp is not None
            if special and special.startswith("mix"):
                use_sp = (k % 2 == 1) if special.startswith("mix-") else (k % 2 == 0)
            out.append(sp if use_sp else z3.ToReal(nd))
            k += 1
        return out


def grid_terms(k, name="l"):
    """Uniform ascending srange of length k with symbolic start and step > 0."""
    l0, step = z3.Real(f"{name}0"), z3.Real(f"{name}step")
    return [l0 + i * step for i in range(k)], [step > 0], (l0, step)


def call_kernel(it, st, kname, args):
    """args: dict name -> value (arrays as lists of cells). Returns dict(out=values, written=conds, lopt=value|None)."""
    mod, names = KERNELS[kname]
    fn = it.get_function(mod, kname)
    sigs, layout, n_in = gufunc_signatures(fn)
    sig = sigs[0]
    call = []
    n = None
    for nm, (dt, nd) in zip(names, sig[:n_in]):
        v = args[nm]
        if nd == 1:
            arr = it.new_array(st, (len(v),), dt, cells=list(v))
            arr.readonly = True
            if nm == "y":
                n = len(v)
            call.append(arr)
        else:
            call.append(v)
    outs = []
    for k, (dt, nd) in enumerate(sig[n_in:]):
        outs.append(C.make_out(it, st, (n,) if nd == 1 and k == 0 else (1,), dt, f"{kname}.out{k}"))
    it.call_function(st, fn, call + outs)
    vals, wr = C.out_values(it, st, outs[0])
    res = {"out": vals, "written": wr, "lopt": None, "lopt_written": True}
    if len(outs) > 1:
        lv, lw = C.out_values(it, st, outs[1])
        res["lopt"], res["lopt_written"] = lv[0], lw[0]
    return res


def call_ref(it, st, fname, *args):
    fn = it.get_function("refs.smooth_ref", fname)
    conv = []
    for a in args:
        if isinstance(a, list):
            conv.append(it.new_array(st, (len(a),), "float64", cells=list(a)))
        else:
            conv.append(a)
    r = it.call_function(st, fn, conv)
    return r


def ref_values(it, st, r):
    return [st.heap[r.bufid][p] for p in r.positions()]


def gap_patterns(n, min_valid=0):
    return [list(p) for p in itertools.product([True, False], repeat=n) if sum(p) >= min_valid]


def eq(a, b):
    """Equality of two scalar values as a Bool term."""
    if V.is_nonfinite(a) or V.is_nonfinite(b):
        return z3.BoolVal(V.same(a, b))
    if V.same(a, b):
        return z3.BoolVal(True)
    return V.to_real(V.num_of_bool(a)) == V.to_real(V.num_of_bool(b))


def all_eq(xs, ys):
    if len(xs) != len(ys):
        return z3.BoolVal(False)
    return z3.And(*[eq(a, b) for a, b in zip(xs, ys)]) if xs else z3.BoolVal(True)


def abstract_ws2d(it, record=None, shift=None):
    """Callee abstraction: ws2d(y, lmda, w) becomes an uninterpreted family WS_i(y masked by w, lmda, w), i < n (DESIGN 4.2).

    The solution of (W + lam D'D) z = W y depends on y only through W y (C01), so cells of zero weight are masked to 0.
    Sound for proving equalities between two executions (congruence); a 'sat' under the abstraction is only a candidate.
    record: list receiving one dict per call (y, lam, w, z) - used to instantiate the ws2d lemmas of C06.
    shift: a term c - the call is rewritten with ws2d's offset commutation (C06 L1) applied eagerly:
    ws2d(y, lam, w) = WS(y - c masked, lam, w) + c. With Arith.factor_shift = c (differences and merges of shifted values are
    built from their unshifted parts) the second execution of an offset pair then builds the same terms as the first one
    wherever the code is offset-invariant."""
    def f(interp, st, args, kwargs):
        y, lam, wv = args
        n = y.shape[0]
        ys = interp.arr_values(st, y)
        ws = interp.arr_values(st, wv)
        my = []
        for a, b in zip(ws, ys):
            zero = interp.A.cmp("==", a, 0)
            if shift is not None:
                b = interp.A.sub(b, shift)
            my.append(interp.A.ite(zero, 0, b) if not isinstance(zero, bool) else (0 if zero else b))
        vec = my + [lam] + ws
        if any(V.is_nonfinite(v) for v in vec):
            raise Unsupported("non-finite argument to abstracted ws2d")
        targs = [V.to_real(V.num_of_bool(v)) for v in vec]
        cells = [interp.A.uf(f"WS{n}_{i}", 2 * n + 1)(*targs) for i in range(n)]
        if shift is not None:
            cells = [c_ + V.to_real(shift) for c_ in cells]
        interp.uf_ws2d_calls = getattr(interp, "uf_ws2d_calls", 0) + 1
        if record is not None:
            record.append({"y": [V.to_real(V.num_of_bool(v)) for v in ys], "lam": V.to_real(V.num_of_bool(lam)),
                           "w": [V.to_real(V.num_of_bool(v)) for v in ws], "z": cells, "guard": z_and_pc(st)})
        return interp.new_array(st, (n,), "float64", cells=cells)
    it.overrides["ws2d"] = f
    it.encoded["hdc.algo.ops.ws2d.ws2d (abstracted: uninterpreted)"] = "uf"

    from pysym.lib import native, _values_of

    @native
    def uf_median(interp, st, a, **kw):
        """np.median as an uninterpreted function of the (masked) vector - same vector, same median."""
        vals, mask = _values_of(interp, st, a)
        if any(V.is_nonfinite(v) for v in vals):
            return V.NAN
        args = []
        for i, v in enumerate(vals):
            m = True if mask is None else mask[i]
            args.append(V.to_real(interp.A.ite(m, V.num_of_bool(v), 0)))
            args.append(V.to_real(V.num_of_bool(interp.A.truthy(m) if not V.is_boolish(m) else m)))
        return interp.A.uf(f"MED{len(vals)}", len(args))(*args)
    it.lib_overrides["numpy.median"] = uf_median


def z_and_pc(st):
    return V.z_and(*st.pc)


def two_stage(w, build, names_hint="", inline=True):
    """build(abstract: bool) -> dict(assume, lemmas, claims=[(name, claim, kwargs)], conc, encoded).

    Stage 1 decides every claim with ws2d abstracted (fast, sound for 'holds'). Claims not proven there are re-decided with
    ws2d inlined; if the inlined query is inconclusive the abstract model is kept as a candidate for the replayer."""
    try:
        b = build(True)
    except Unsupported:
        b = None
    pending = None
    if b is not None:
        pending = []
        budget = min(w.timeout_ms, 20000)
        for name, claim, kw in b["claims"]:
            if V.simp_bool(claim) is False and V.simp_bool(kw.get("guard", True)) is True:
                v, m, dt = "sat", None, 0.0
            else:
                v, m, dt = C.check_sat(list(b["assume"]) + list(b["lemmas"]) + [kw.get("guard", True), V.z_not(claim)], budget)
                if v not in ("sat", "unsat"):
                    budget = 3000   # siblings of an undecided claim get a short budget
            goal_hash = C.term_hash(V.to_z3(V.z_not(claim))) if V.is_sym(V.z_not(claim)) else "const"
            if v == "unsat":
                w.res.queries.append({"name": name + "[ws2d abstracted]", "verdict": "unsat", "time": round(dt, 4), "hash": goal_hash,
                                      "nvars": 1 if V.is_sym(claim) else 0, "config": w.config})
            else:
                cand = None
                if v != "sat" and V.simp_bool(claim) is not False:
                    # a model of the formula without the ground lemmas is still a usable candidate (the replayer decides)
                    v0, m0, _ = C.check_sat(list(b["facts"]) + [kw.get("guard", True), V.z_not(claim)], 15000)
                    if v0 == "sat":
                        v, m = "sat", m0
                if v == "sat" and m is not None:
                    try:
                        cand = C.jsonable(b["conc"](m))
                    except Exception:
                        cand = None
                pending.append((name, cand))
        w.res.encoded.update(b["encoded"])
        if not pending:
            return
    if not inline:
        for name, cand in pending:
            w.res.queries.append({"name": name + "[ws2d abstracted; inlined stage disabled for this configuration]", "verdict": "unknown",
                                  "time": 0.0, "hash": "noinline:" + name + str(w.config), "nvars": 1, "config": w.config})
            if cand is not None:
                kn = None
                for nm, claim, kw in b["claims"]:
                    if nm == name:
                        for fid, pred in (kw.get("known_preds") or {}).items():
                            if fid in w.known and z3.is_true(z3.simplify(V.to_z3(pred))):
                                kn = fid
                w.res.candidates.append({"obligation": name + "[candidate from the ws2d-abstracted model]", "config": w.config,
                                         "known": kn, "input": cand})
        return
    b2 = build(False)
    w.res.encoded.update(b2["encoded"])
    todo = {n for n, _ in pending} if pending is not None else None
    cands = dict(pending) if pending is not None else {}
    gave_up = False
    for name, claim, kw in b2["claims"]:
        if todo is not None and name not in todo:
            continue
        if gave_up:
            # one inlined query of this configuration was already inconclusive: do not burn the budget on its siblings
            w.res.queries.append({"name": name, "verdict": "unknown(skipped)", "time": 0.0, "hash": "skipped:" + name + str(w.config),
                                  "nvars": 1, "config": w.config})
            continue
        v = w.discharge(name, b2["assume"], claim, lemmas=b2["lemmas"], concretize=b2["conc"],
                        first_timeout_ms=min(w.timeout_ms, 20000), **kw)
        if v not in ("unsat", "sat", "folded"):
            gave_up = True
            if cands.get(name) is not None:
                kn = None
                for fid, pred in (kw.get("known_preds") or {}).items():
                    if fid in w.known and z3.is_true(z3.simplify(V.to_z3(pred))):
                        kn = fid
                w.res.candidates.append({"obligation": name + "[candidate from the ws2d-abstracted model; inlined query inconclusive]",
                                         "config": w.config, "known": kn, "input": cands[name]})
