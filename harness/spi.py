"""Shared set-up for the SPI properties (C07, C08, C14's gammastd_grp): contracts for the numerical kernels and pixel builders."""
import z3

from . import common as C
from pysym import vals as V
from pysym.interp import State
from pysym.vals import Unsupported

MOD = "hdc.algo.ops.stats"


def new_interp(policy="uf"):
    it = C.new_interp(policy=policy)
    it.prune_mode = "facts"
    it.extra_roots["refs"] = C.VERIF
    it.A.real_compare = True
    it.calls = {"gammainc": [], "ndtri": [], "brentq": []}
    R = z3.RealSort()
    root = z3.Function("brent_root", R, R, R, R)

    def brentq(it_, st, args, kw):
        xa, xb, s = [V.to_real(V.num_of_bool(a)) for a in args]
        r = root(xa, xb, s)
        # contract of the Brent iteration: the root of the monotone function inside the bracket, or 0 if the bracket has none
        it_.A.lemma(("brentq", r.get_id()), z3.Or(r == 0, z3.And(r >= xa, r <= xb)))
        it_.A.lemma(("brentq+", r.get_id()), r >= 0)
        it_.calls["brentq"].append((xa, xb, s, r))
        return r
    it.overrides["brentq"] = brentq

    def h_gammainc(it_, st, args, r):
        it_.A.lemma(("ginc", r.get_id()), z3.And(r >= 0, r <= 1))
        it_.calls["gammainc"].append((args, r))

    it.nonfinite_when = {}

    def h_ndtri(it_, st, args, r):
        it_.calls["ndtri"].append((args, r))
        u = V.to_real(args[0])
        # the normal quantile is infinite exactly at 0 and 1 (np.isfinite of the result is modelled through this)
        it_.nonfinite_when[r.get_id()] = z3.Or(u <= 0, u >= 1)
        it_._alive.append(r)
    it.special_hooks["gammainc"] = h_gammainc
    it.special_hooks["ndtri"] = h_ndtri
    return it


class SpiPixel:
    """One pixel. Every cell has a class (configuration): 'm' missing (holds nodata), 'n' negative, 'z' zero, 'p' positive;
    negative and positive cells are symbolic integers. The boolean form (True = missing) leaves the sign of the others free."""

    def __init__(self, T, classes, tag=""):
        self.T = T
        self.classes = ["m" if c is True else ("f" if c is False else c) for c in classes]
        self.missing = [c == "m" for c in self.classes]
        self.xs = [z3.Int(f"r{tag}{i}") for i in range(T)]

    def facts(self, nd, bound=10000):
        f = []
        for x, c in zip(self.xs, self.classes):
            if c == "m" or c == "z":
                continue
            f += [x != nd, x >= -bound, x <= bound]
            if c == "n":
                f.append(x < 0)
            elif c == "p":
                f.append(x > 0)
        return f

    def cells(self, nd):
        return [nd if c == "m" else (0 if c == "z" else x) for x, c in zip(self.xs, self.classes)]


def monotonic_lemmas(it, terms):
    """Ground monotonicity instances for the contracts, over the applications that occur in `terms` (C08 E3)."""
    apps = {"divf": [], "mulf": [], "sc_gammainc": [], "sc_ndtri": []}
    seen, todo = set(), [V.to_z3(t) for t in terms if V.is_sym(t)]
    while todo:
        x = todo.pop()
        if x.get_id() in seen:
            continue
        seen.add(x.get_id())
        if z3.is_app(x) and x.decl().name() in apps:
            apps[x.decl().name()].append(x)
        todo.extend(x.children())
    lem = []
    for a in apps["sc_ndtri"]:
        for b in apps["sc_ndtri"]:
            if a.get_id() < b.get_id():
                lem.append(z3.Implies(a.arg(0) <= b.arg(0), a <= b))
                lem.append(z3.Implies(b.arg(0) <= a.arg(0), b <= a))
    for a in apps["sc_gammainc"]:
        for b in apps["sc_gammainc"]:
            if a.get_id() < b.get_id() and a.arg(0).eq(b.arg(0)):
                lem.append(z3.Implies(a.arg(1) <= b.arg(1), a <= b))
                lem.append(z3.Implies(b.arg(1) <= a.arg(1), b <= a))
    for a in apps["divf"]:
        for b in apps["divf"]:
            if a.get_id() < b.get_id() and a.arg(1).eq(b.arg(1)):
                lem.append(z3.Implies(z3.And(a.arg(1) > 0, a.arg(0) <= b.arg(0)), a <= b))
                lem.append(z3.Implies(z3.And(a.arg(1) > 0, b.arg(0) <= a.arg(0)), b <= a))
    for a in apps["mulf"]:
        for b in apps["mulf"]:
            if a.get_id() < b.get_id():
                for i in (0, 1):
                    for j in (0, 1):
                        if a.arg(i).eq(b.arg(j)):
                            k, u, v = a.arg(i), a.arg(1 - i), b.arg(1 - j)
                            lem.append(z3.Implies(z3.And(k >= 0, u <= v), a <= b))
                            lem.append(z3.Implies(z3.And(k >= 0, v <= u), b <= a))
    return lem
