"""Contracts standing in for xarray / pandas objects at the accessor level (DESIGN 4.2 library stubs).

A StubDA models ONE pixel of a DataArray: a 1-d series along its core dimension (plus optional size-1 dims that
only matter for dimension bookkeeping). NaN-ness is a separate boolean flag per element. The contracts are the
documented xarray semantics of the handful of methods the accessors use; each is exercised against the real
library in translator validation of the harness that uses it.
"""
from __future__ import annotations

import z3

from pysym import vals as V
from pysym.vals import Unsupported, z_and, z_or, z_not, is_sym
from pysym.lib import native, NativeBound
from pysym.arr import Arr, INT_RANGES


class MonoIndex:
    """pandas Index of the core dimension: monotonicity predicates over the (symbolic) labels."""

    def __init__(self, da):
        self.da = da

    def pysym_getattr(self, it, st, attr):
        t = [V.to_z3(x) if is_sym(x) else x for x in self.da.time]
        pairs = list(zip(t, t[1:]))
        if attr == "is_monotonic_increasing":
            return z_and(*[it.A.cmp("<=", a, b) for a, b in pairs]) if pairs else True
        if attr == "is_monotonic_decreasing":
            return z_and(*[it.A.cmp(">=", a, b) for a, b in pairs]) if pairs else True
        if attr == "is_unique":
            return z_and(*[it.A.cmp("!=", a, b) for i, a in enumerate(t) for b in t[i + 1:]]) if pairs else True
        raise Unsupported(f"Index.{attr}")


class StubDA:
    def __init__(self, vals, dims=("time",), time=None, nan=None, dtype="float64", attrs=None, name=None, core="time"):
        self.vals = list(vals)
        self.nan = list(nan) if nan is not None else [False] * len(self.vals)
        self.dims = tuple(dims)
        self.time = list(time) if time is not None else list(range(len(self.vals)))
        self.dtype = dtype
        self.attrs = dict(attrs or {})
        self.name = name
        self.core = core
        self.log = []

    def like(self, vals=None, nan=None, **kw):
        d = StubDA(self.vals if vals is None else vals, self.dims, self.time, self.nan if nan is None else nan,
                   self.dtype, self.attrs, self.name, self.core)
        for k, v in kw.items():
            setattr(d, k, v)
        return d

    def pysym_merge(self, it, c, other):
        if self.dims != other.dims or len(self.vals) != len(other.vals) or self.core != other.core:
            return None
        d = self.like([it.ite_any(c, a, b) for a, b in zip(self.vals, other.vals)],
                      [it.A.ite(c, a, b) for a, b in zip(self.nan, other.nan)])
        if self.dtype != other.dtype:
            d.dtype = "float64"
        return d

    # ---- attribute protocol used by pysym
    def pysym_getattr(self, it, st, attr):
        if attr == "dims":
            return self.dims
        if attr == "attrs":
            return self.attrs
        if attr == "dtype":
            return self.dtype
        if attr == "name":
            return self.name
        if attr == "data" or attr == "values":
            return self
        if attr == "sizes":
            return {d: (len(self.vals) if d == self.core else 1) for d in self.dims}
        if attr == "size":
            return len(self.vals)
        if attr == self.core:
            return StubCoord(self)
        if attr == "indexes":
            return {self.core: MonoIndex(self)}
        m = getattr(self, "m_" + attr, None)
        if m is None:
            raise Unsupported(f"StubDA has no contract for attribute {attr!r}")
        return NativeBound(lambda it, st, selfv, *a, **k: m(it, st, *a, **k), self)

    def pysym_compare(self, it, st, sym, other, swapped):
        if swapped:
            sym = {"<": ">", ">": "<", "<=": ">=", ">=": "<="}.get(sym, sym)
        ov = other.vals if isinstance(other, StubDA) else [other] * len(self.vals)
        on = other.nan if isinstance(other, StubDA) else [False] * len(self.vals)
        out = []
        for v, n, o, m in zip(self.vals, self.nan, ov, on):
            c = it.A.cmp(sym, v, o)
            # comparisons with NaN are False (True for !=)
            c = it.A.ite(z_or(n, m), sym == "!=", c)
            out.append(c)
        return self.like(out, [False] * len(out), dtype="bool")

    def pysym_binop(self, it, st, name, other, swapped):
        ov = other.vals if isinstance(other, StubDA) else [other] * len(self.vals)
        on = other.nan if isinstance(other, StubDA) else [False] * len(self.vals)
        if isinstance(other, StubDA) and len(ov) != len(self.vals):
            raise Unsupported("StubDA binop with different lengths")
        out, nan = [], []
        for v, n, o, m in zip(self.vals, self.nan, ov, on):
            a, b = (o, v) if swapped else (v, o)
            out.append(it.scalar_binop(st, name, V.num_of_bool(a), V.num_of_bool(b)))
            nan.append(z_or(n, m))
        base = self if self.dims else (other if isinstance(other, StubDA) else self)
        return base.like(out, nan, dtype="float64" if name == "Div" else self.dtype)

    def pysym_unary(self, it, st, opname):
        if opname == "Invert":
            return self.like([z_not(it.A.truthy(v)) for v in self.vals], dtype="bool")
        if opname == "USub":
            return self.like([it.A.neg(v) for v in self.vals])
        raise Unsupported(opname)

    def pysym_getitem(self, it, st, idx):
        # positional indexing along the core dim: da[{dim: slice}] or da[..., k:]
        from pysym.interp import SliceV
        if isinstance(idx, dict):
            (dim, sl), = idx.items()
            if dim != self.core:
                raise Unsupported("indexing a non-core dim of StubDA")
            return self._slice(it, st, sl)
        if isinstance(idx, tuple):
            if idx and idx[0] is Ellipsis and len(idx) == 2 and self.dims[-1] == self.core:
                return self._slice(it, st, idx[1])
            raise Unsupported("tuple index on StubDA")
        if self.dims and self.dims[0] == self.core:
            return self._slice(it, st, idx)
        if self.dims and self.dims[0] != self.core:
            # positional index on the leading dimension, which is a size-1 (per-pixel) dimension here: a slice keeps the pixel
            # (in whatever direction it runs), index 0 / -1 selects it
            if isinstance(idx, SliceV):
                lo, hi, stp = it.use(st, idx.lo), it.use(st, idx.hi), it.use(st, idx.step)
                if any(is_sym(x) for x in (lo, hi, stp)):
                    raise Unsupported("symbolic slice on StubDA")
                if len(range(*slice(lo, hi, stp).indices(1))) != 1:
                    raise Unsupported("slice that drops the only pixel of a size-1 dimension")
                d = self.like()
                d.log = self.log + [("slice-leading", lo, hi, stp)]
                return d
            if isinstance(idx, int) and idx in (0, -1):
                d = self.like()
                d.dims = self.dims[1:]
                return d
        raise Unsupported("index on StubDA")

    def _slice(self, it, st, sl):
        from pysym.interp import SliceV
        if isinstance(sl, SliceV):
            sl = slice(it.use(st, sl.lo), it.use(st, sl.hi), it.use(st, sl.step))
        if isinstance(sl, slice):
            if any(is_sym(x) for x in (sl.start, sl.stop, sl.step)):
                raise Unsupported("symbolic slice on StubDA")
            rng = range(*sl.indices(len(self.vals)))
            d = self.like([self.vals[i] for i in rng], [self.nan[i] for i in rng])
            d.time = [self.time[i] for i in rng]
            d.log = self.log + [("slice", sl.start, sl.stop, sl.step)]
            return d
        k = sl
        if isinstance(k, int):
            d = self.like([self.vals[k]], [self.nan[k]])
            d.time = [self.time[k]]
            d.dims = tuple(x for x in self.dims if x != self.core)
            return d
        raise Unsupported("symbolic positional index on StubDA")

    # ---- methods (contracts)
    def m_sortby(self, it, st, key, ascending=True):
        if key != self.core:
            raise Unsupported("sortby on non-core coordinate")
        n = len(self.vals)
        ts = self.time
        if not any(is_sym(t) for t in ts):
            order = sorted(range(n), key=lambda i: ts[i], reverse=not ascending)
            d = self.like([self.vals[i] for i in order], [self.nan[i] for i in order])
            d.time = [ts[i] for i in order]
            return d
        # rank_i = number of elements that come before i (time stamps are assumed distinct by the harness)
        ranks = []
        for i in range(n):
            r = 0
            for j in range(n):
                if j == i:
                    continue
                before = it.A.cmp("<" if ascending else ">", ts[j], ts[i])
                r = it.A.add(r, V.num_of_bool(before))
            ranks.append(r)
        vals, nans, times = [], [], []
        for k in range(n):
            v, nn, tt = self.vals[n - 1], self.nan[n - 1], ts[n - 1]
            for i in range(n - 2, -1, -1):
                c = it.A.cmp("==", ranks[i], k)
                v = it.A.ite(c, self.vals[i], v)
                nn = it.A.ite(c, self.nan[i], nn)
                tt = it.A.ite(c, ts[i], tt)
            vals.append(v)
            nans.append(nn)
            times.append(tt)
        d = self.like(vals, nans)
        d.time = times
        return d

    def m_where(self, it, st, cond, other=None):
        if not isinstance(cond, StubDA):
            raise Unsupported("where with non-DataArray condition")
        vals, nans = [], []
        for v, n, c in zip(self.vals, self.nan, cond.vals):
            c = it.A.truthy(c)
            if other is None:
                vals.append(v)
                nans.append(z_or(n, z_not(c)))
            else:
                o = other
                vals.append(it.A.ite(c, v, o))
                nans.append(z_and(n, c))
        return self.like(vals, nans, dtype=("float64" if other is None else self.dtype))

    def m_cumsum(self, it, st, dim=None, skipna=None):
        if dim != self.core:
            raise Unsupported("cumsum over non-core dim")
        vals, nans = [], []
        acc, accn = 0, False
        for v, n in zip(self.vals, self.nan):
            if skipna is False:
                acc = it.A.add(acc, v)
                accn = z_or(accn, n)
                vals.append(acc)
                nans.append(accn)
            else:
                acc = it.A.add(acc, it.A.ite(n, 0, v))
                vals.append(acc)
                nans.append(False)
        return self.like(vals, nans)

    def m_isnull(self, it, st):
        return self.like(list(self.nan), [False] * len(self.nan), dtype="bool")

    def m_notnull(self, it, st):
        return self.like([z_not(n) for n in self.nan], [False] * len(self.nan), dtype="bool")

    def m_argmax(self, it, st, dim=None):
        if dim != self.core:
            raise Unsupported("argmax over non-core dim")
        for n_ in self.nan:
            n_ = V.simp_bool(n_)
            if n_ is not False and not z3.is_false(z3.simplify(V.to_z3(n_))):
                raise Unsupported("argmax with possible NaN")
        n = len(self.vals)
        best, idx = self.vals[0], 0
        for i in range(1, n):
            c = it.A.cmp(">", self.vals[i], best)
            best = it.A.ite(c, self.vals[i], best)
            idx = it.A.ite(c, i, idx)
        d = StubDA([idx], tuple(x for x in self.dims if x != self.core), [None], [False], "int64", self.attrs, self.name, self.core)
        return d

    def m_isel(self, it, st, **kw):
        if list(kw) != [self.core]:
            raise Unsupported("isel on non-core dim")
        return self._slice(it, st, kw[self.core])

    def m_astype(self, it, st, dtype):
        from pysym.arr import norm_dtype
        dt = norm_dtype(dtype)
        vals = [cast_value(it, st, v, self.dtype, dt) for v in self.vals]
        return self.like(vals, dtype=dt)

    def m_to_index(self, it, st):
        return StubIndex(self.time)

    def m_get_index(self, it, st, name):
        return StubIndex(self.time)

    def m_transpose(self, it, st, *dims):
        return self

    def m_to_dataset(self, it, st, name=None):
        return DatasetStub(name, self)


class DatasetStub:
    """xarray.Dataset contract: named variables, item assignment."""

    def __init__(self, name, da):
        self.vars = {name: da}

    def pysym_setitem(self, it, st, key, v):
        self.vars[key] = v


def cast_value(it, st, v, src, dst):
    """Value conversion between dtypes; int -> float32 is exact only up to 2**24 (else rounded: unspecified within 1 ulp)."""
    if dst == "float32" and src in INT_RANGES and not it.concrete:
        lo, hi = INT_RANGES[src]
        if max(abs(lo), abs(hi)) > 2**24 and is_sym(v):
            r = it.A.fresh("f32round", "real")
            exact = z3.And(v >= -2**24, v <= 2**24)
            vr = z3.ToReal(v)
            it.A.lemma(("f32", r.get_id()), z3.And(z3.Implies(exact, r == vr),
                                                   z3.Implies(z3.Not(exact), z3.And(r - vr <= 128, vr - r <= 128,
                                                                                    z3.ToReal(z3.ToInt(r / 2)) * 2 == r))))
            return r
    return it.cast_store(st, dst, v, what="astype")


class StubCoord:
    def __init__(self, da):
        self.da = da

    def pysym_getattr(self, it, st, attr):
        if attr == "size":
            return len(self.da.vals)
        if attr == "to_index":
            return NativeBound(lambda it, st, selfv: StubIndex(self.da.time), self)
        if attr == "values":
            return self.da.time
        raise Unsupported(f"coordinate attribute {attr}")

    def pysym_getitem(self, it, st, idx):
        k = it.use(st, idx)
        if isinstance(k, int):
            return StubTimeValue(self.da.time[k])
        raise Unsupported("symbolic coordinate index")

    def pysym_len(self, it, st):
        return len(self.da.vals)


class StubTimeValue:
    def __init__(self, v):
        self.v = v

    def pysym_getattr(self, it, st, attr):
        if attr == "values":
            return self.v
        raise Unsupported(attr)


class StubIndex:
    """pandas.Index over sorted or unsorted label values (terms or ints)."""

    def __init__(self, labels):
        self.labels = list(labels)

    def pysym_len(self, it, st):
        return len(self.labels)


# ---------------------------------------------------------------- gufunc calling convention
import re  # noqa: E402

from pysym.sig import gufunc_signatures  # noqa: E402

_CAST_OK = {
    # numpy "safe" casting used by gufunc type resolution (subset relevant here)
    "uint8": ["uint8", "int16", "int32", "int64", "float32", "float64"],
    "int8": ["int8", "int16", "int32", "int64", "float32", "float64"],
    "int16": ["int16", "int32", "int64", "float32", "float64"],
    "int32": ["int32", "int64", "float64"],
    "int64": ["int64", "float64"],
    "float32": ["float32", "float64"],
    "float64": ["float64"],
    "bool": ["bool", "uint8", "int8", "int16", "int32", "int64", "float32", "float64"],
}


def _dtype_of(it, v):
    if isinstance(v, Arr):
        return v.dtype
    if isinstance(v, StubDA):
        return v.dtype
    if V.is_boolish(v):
        return "bool"
    if V.is_int_valued(v):
        return "int64"
    return "float64"


def call_gufunc(it, st, fn, args, make_out):
    """Call a guvectorize kernel the way NumPy would: pick the first signature every input can be safely cast to,
    cast the inputs, allocate uninitialised outputs from the layout, run the Python source symbolically."""
    sg = gufunc_signatures(fn)
    if sg is None:
        raise Unsupported(f"{fn.name} has no guvectorize signature")
    sigs, layout, n_in = sg
    if len(args) != n_in:
        raise Unsupported(f"{fn.name}: expected {n_in} inputs, got {len(args)}")
    chosen = None
    for sig in sigs:
        ok = True
        for a, (dt, nd) in zip(args, sig[:n_in]):
            src = _dtype_of(it, a)
            if isinstance(a, Arr) or isinstance(a, StubDA):
                if dt not in _CAST_OK.get(src, [src]):
                    ok = False
            # python scalars are weakly typed: always accepted
        if ok:
            chosen = sig
            break
    if chosen is None:
        raise Unsupported(f"{fn.name}: no matching signature for {[_dtype_of(it, a) for a in args]}")
    lhs, rhs = layout.split("->")
    in_dims = re.findall(r"\(([^)]*)\)", lhs)
    out_dims = re.findall(r"\(([^)]*)\)", rhs)
    sizes = {}
    call_args = []
    for a, (dt, nd), dims in zip(args, chosen[:n_in], in_dims):
        names = [d.strip() for d in dims.split(",") if d.strip()]
        if nd == 0:
            v = a
            if isinstance(a, Arr):
                v = it.arr_values(st, a)[0]
            call_args.append(it.cast_store(st, dt, v, what=f"gufunc input of {fn.name}"))
            continue
        if not isinstance(a, Arr):
            raise Unsupported(f"{fn.name}: array expected")
        if a.ndim != len(names):
            raise Unsupported(f"{fn.name}: core dims mismatch")
        for nm, sz in zip(names, a.shape):
            if sizes.setdefault(nm, sz) != sz:
                from pysym.interp import Raised
                raise Raised("ValueError", f"gufunc core dimension {nm} mismatch")
        if a.dtype != dt:
            cells = [cast_value(it, st, c, a.dtype, dt) for c in it.arr_values(st, a)]
            a = it.new_array(st, a.shape, dt, cells=cells)
        call_args.append(a)
    outs = []
    for (dt, nd), dims in zip(chosen[n_in:], out_dims):
        names = [d.strip() for d in dims.split(",") if d.strip()]
        shape = tuple(sizes[nm] for nm in names) if names else (1,)
        outs.append(make_out(it, st, shape, dt, f"{fn.name}.out{len(outs)}"))
    it.call_function(st, fn, call_args + outs)
    return outs, chosen


def make_apply_ufunc(make_out, record=None):
    """Contract for xarray.apply_ufunc on single-pixel StubDAs: checks the core-dimension wiring and applies the kernel."""
    from pysym.interp import UserFunc, Raised

    @native
    def apply_ufunc(it, st, func, *args, input_core_dims=None, output_core_dims=((),), kwargs=None, **other):
        if record is not None:
            record.append({"func": getattr(func, "name", str(func)), "input_core_dims": input_core_dims,
                           "output_core_dims": output_core_dims, "other": {k: (v if isinstance(v, (str, int, float, bool, list)) else str(v)) for k, v in other.items()}})
        if input_core_dims is None:
            input_core_dims = [[] for _ in args]
        if len(input_core_dims) != len(args):
            raise Raised("ValueError", "input_core_dims length mismatch")
        conv = []
        template = None
        for a, cd in zip(args, input_core_dims):
            cd = list(cd)
            if isinstance(a, StubDA):
                if cd:
                    if cd != [a.core] or a.core not in a.dims:
                        raise Raised("ValueError", f"core dimension {cd} not found on DataArray with dims {a.dims}")
                    if template is None:
                        template = a
                    cells = [V.NAN if V.simp_bool(n) is True else v for v, n in zip(a.vals, a.nan)]
                    if any(V.simp_bool(n) not in (True, False) for n in a.nan):
                        raise Unsupported("symbolically-NaN cell passed into a kernel")
                    conv.append(it.new_array(st, (len(cells),), a.dtype, cells=cells))
                else:
                    if len(a.vals) != 1:
                        raise Raised("ValueError", "DataArray without core dim must be scalar per pixel")
                    conv.append(a.vals[0])
            elif isinstance(a, Arr):
                if len(cd) != a.ndim:
                    raise Raised("ValueError", f"operand has {a.ndim} dims but {len(cd)} core dims")
                conv.append(a)
            else:
                if cd:
                    raise Raised("ValueError", "scalar operand with core dims")
                conv.append(a)
        if not isinstance(func, UserFunc):
            raise Unsupported(f"apply_ufunc on {func!r}")
        if gufunc_signatures(func) is not None:
            outs, sig = call_gufunc(it, st, func, conv, make_out)
        else:
            # plain njit function over (y, x, t) blocks: one pixel => shape (1, 1, T)
            a0 = conv[0]
            blk = Arr(a0.bufid, a0.offset, (1, 1) + a0.shape, (0, 0) + a0.strides, a0.dtype)
            res = it.call_function(st, func, [blk] + conv[1:], dict(kwargs or {}))
            if not isinstance(res, Arr):
                raise Unsupported("apply_ufunc: function did not return an array")
            outs = [Arr(res.bufid, res.offset, res.shape[2:], res.strides[2:], res.dtype)]
        ocd = [list(x) for x in output_core_dims]
        if len(ocd) != len(outs):
            raise Raised("ValueError", f"kernel produced {len(outs)} outputs, output_core_dims declares {len(ocd)}")
        results = []
        for o, cd in zip(outs, ocd):
            cells = [st.heap[o.bufid][p] for p in o.positions()]
            if cd:
                d = StubDA(cells, tuple(x for x in template.dims if x != template.core) + tuple(cd),
                           template.time if len(cells) == len(template.vals) else list(range(len(cells))),
                           None, o.dtype, template.attrs if other.get("keep_attrs") else {}, template.name, cd[0])
            else:
                if o.size != 1:
                    raise Raised("ValueError", "scalar output expected")
                d = StubDA(cells, tuple(x for x in template.dims if x != template.core), [None], None, o.dtype,
                           template.attrs if other.get("keep_attrs") else {}, template.name, template.core)
            results.append(d)
        return results[0] if len(results) == 1 else tuple(results)
    return apply_ufunc
