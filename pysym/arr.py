"""Strided array views over shared buffers (NumPy aliasing semantics) and compacted arrays."""
from __future__ import annotations

import itertools

from .vals import Unsupported

INT_RANGES = {
    "int8": (-128, 127),
    "uint8": (0, 255),
    "int16": (-32768, 32767),
    "uint16": (0, 65535),
    "int32": (-2**31, 2**31 - 1),
    "uint32": (0, 2**32 - 1),
    "int64": (-2**63, 2**63 - 1),
    "uint64": (0, 2**64 - 1),
}
FLOAT_DTYPES = ("float64", "float32")

_buf_counter = itertools.count(1)


def new_bufid():
    return next(_buf_counter)


def norm_dtype(d):
    if d is None:
        return "float64"
    if isinstance(d, str):
        m = {"u1": "uint8", "i2": "int16", "i4": "int32", "i8": "int64", "f4": "float32", "f8": "float64",
             "bool": "bool", "boolean": "bool", "float": "float64", "int": "int64", "str": "str"}
        return m.get(d, d)
    name = getattr(d, "dtype_name", None)
    if name:
        return name
    if type(d).__name__ == "LibRef":
        return norm_dtype(d.name.rsplit(".", 1)[-1])
    name = getattr(d, "__name__", None)
    if name:
        return norm_dtype(name)
    return str(d)


class Arr:
    """View (bufid, offset, shape, strides) - cells live in State.heap[bufid]."""

    __slots__ = ("bufid", "offset", "shape", "strides", "dtype", "readonly")

    def __init__(self, bufid, offset, shape, strides, dtype, readonly=False):
        self.bufid = bufid
        self.offset = offset
        self.shape = tuple(shape)
        self.strides = tuple(strides)
        self.dtype = dtype
        self.readonly = readonly

    @property
    def ndim(self):
        return len(self.shape)

    @property
    def size(self):
        n = 1
        for s in self.shape:
            n *= s
        return n

    def positions(self):
        """Flat buffer positions of all elements in C order."""
        if not self.shape:
            return [self.offset]
        out = []
        for idx in itertools.product(*[range(s) for s in self.shape]):
            out.append(self.offset + sum(i * st for i, st in zip(idx, self.strides)))
        return out

    def pos(self, idx):
        return self.offset + sum(i * st for i, st in zip(idx, self.strides))

    def same_view(self, other):
        return (isinstance(other, Arr) and self.bufid == other.bufid and self.offset == other.offset
                and self.shape == other.shape and self.strides == other.strides)

    def __repr__(self):
        return f"Arr(buf={self.bufid}, off={self.offset}, shape={self.shape}, strides={self.strides}, {self.dtype})"


def c_strides(shape):
    st = []
    acc = 1
    for s in reversed(shape):
        st.append(acc)
        acc *= s
    return tuple(reversed(st))


class CArr:
    """Compacted 1-d array: the elements of `elems` whose `mask` is true, in order (immutable value)."""

    __slots__ = ("elems", "mask", "dtype")

    def __init__(self, elems, mask, dtype):
        self.elems = list(elems)
        self.mask = list(mask)
        self.dtype = dtype

    @property
    def ndim(self):
        return 1

    def same_mask(self, mask):
        from .vals import same
        return len(mask) == len(self.mask) and all(same(a, b) for a, b in zip(mask, self.mask))

    def __repr__(self):
        return f"CArr(n<={len(self.elems)}, {self.dtype})"


def slice_indices(sl, n):
    if not isinstance(sl, slice):
        raise Unsupported("slice expected")
    for v in (sl.start, sl.stop, sl.step):
        if v is not None and not isinstance(v, int):
            raise Unsupported("symbolic slice bound")
    return sl.indices(n)
