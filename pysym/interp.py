"""If-converting symbolic evaluator for the Python subset used by hdc-algo (DESIGN 4.2)."""
from __future__ import annotations

import ast
import hashlib
import os

import z3

from . import vals as V
from .vals import Unsupported, Partial, is_sym, z_and, z_or, z_not, simp_bool, same
from .arr import Arr, CArr, new_bufid, c_strides, norm_dtype, slice_indices, INT_RANGES, FLOAT_DTYPES


class ModuleRef:
    def __init__(self, name):
        self.name = name

    def __repr__(self):
        return f"ModuleRef({self.name})"


class LibRef:
    """A library object named by its dotted path (resolved by pysym.lib)."""

    def __init__(self, name):
        self.name = name

    def __repr__(self):
        return f"LibRef({self.name})"


class UserFunc:
    def __init__(self, module, node, closure=None, decorators=None):
        self.module = module
        self.node = node
        self.closure = closure
        self.name = node.name if hasattr(node, "name") else "<lambda>"

    def __repr__(self):
        return f"UserFunc({self.module.name}.{self.name})"


class UserClass:
    def __init__(self, module, node):
        self.module = module
        self.node = node
        self.name = node.name
        self.methods = {}
        self.props = {}
        self.attrs = {}
        self.base_names = [ast.unparse(b) for b in node.bases]
        self._bases_done = False
        for st in node.body:
            if isinstance(st, ast.Assign) and len(st.targets) == 1 and isinstance(st.targets[0], ast.Name):
                self.attrs[st.targets[0].id] = st.value
            if isinstance(st, ast.FunctionDef):
                decs = [ast.unparse(d) for d in st.decorator_list]
                if "overload" in decs:
                    continue
                if "property" in decs:
                    self.props[st.name] = UserFunc(module, st)
                    self.props[st.name].owner_cls = self
                else:
                    self.methods[st.name] = UserFunc(module, st)
                    self.methods[st.name].owner_cls = self


    def link_bases(self, interp):
        if self._bases_done:
            return
        self._bases_done = True
        for bn in self.base_names:
            b = self.module.globals.get(bn)
            b = interp.resolve_lazy(b) if b is not None else None
            if isinstance(b, UserClass):
                b.link_bases(interp)
                for k, v in b.methods.items():
                    self.methods.setdefault(k, v)
                for k, v in b.props.items():
                    self.props.setdefault(k, v)
                for k, v in b.attrs.items():
                    self.attrs.setdefault(k, (b, v) if not isinstance(v, tuple) else v)


class Instance:
    def __init__(self, cls):
        self.cls = cls
        self.fields = {}


class BoundMethod:
    def __init__(self, func, selfv):
        self.func = func
        self.selfv = selfv


class Module:
    def __init__(self, name, path, tree, src):
        self.name = name
        self.path = path
        self.tree = tree
        self.src = src
        self.globals = {}


class Raised(Exception):
    """Concrete (unconditional on the current path) exception of the analysed program."""

    def __init__(self, kind, msg=""):
        super().__init__(f"{kind}: {msg}")
        self.kind = kind
        self.msg = msg


class State:
    access_log = None     # callable(kind, bufid, pos, state) while a prange body is executed (race analysis), else None

    def __init__(self):
        self.env = {}
        self.heap = {}
        self.pc = []          # path condition (list of Bool terms)
        self.brk = False
        self.cont = False
        self.ret = False
        self.retval = None
        self.exc = False      # Bool: an exception was raised
        self.exc_kind = None  # python str or ite-merged? kept as list of (cond, kind)
        self.exc_list = []
        self.yields = []      # list of (guard, value)
        self.owned = set()

    def wbuf(self, bid, pos=None):
        """Writable cell list of a buffer (copy-on-write after a fork). `pos` feeds the access log of parallel loops."""
        if State.access_log is not None and pos is not None:
            State.access_log("w", bid, pos, self)
        if bid not in self.owned:
            self.heap[bid] = list(self.heap[bid])
            self.owned.add(bid)
        return self.heap[bid]

    def fork(self):
        s = State()
        s.env = {k: (list(v) if isinstance(v, list) else v) for k, v in self.env.items()}
        s.heap = dict(self.heap)
        s.owned = set()
        self.owned = set()
        s.pc = list(self.pc)
        s.brk, s.cont, s.ret, s.retval = self.brk, self.cont, self.ret, self.retval
        s.exc = self.exc
        s.exc_list = list(self.exc_list)
        s.yields = list(self.yields)
        return s


class Obligation:
    __slots__ = ("kind", "guard", "claim", "info", "where")

    def __init__(self, kind, guard, claim, info, where):
        self.kind, self.guard, self.claim, self.info, self.where = kind, guard, claim, info, where


class Interp:
    def __init__(self, repo="/repo", policy="uf", concrete=False, facts=None, prune_timeout_ms=200):
        self.repo = repo
        self.A = V.Arith(policy=policy, concrete=concrete)
        self.A.choice_cls = Choice
        self.concrete = concrete
        self.modules = {}
        self.obligations = []
        self.narrow = None          # id(wrapper) -> wrapper of single-precision values (off unless a harness sets {})
        self.overrides = {}        # function name -> python callable(interp, state, args, kwargs)
        self.facts = None
        self.fact_list = []
        self.prune_timeout_ms = prune_timeout_ms
        self.prune_cache = {}
        self.prune_mode = "facts"   # off | facts | pc
        self._lemmas_in_facts = 0
        self.stats = {"branches_sym": 0, "branches_pruned": 0, "obligations_folded": 0, "stmts": 0, "calls": 0}
        self.int_bounds = {}       # term id -> (lo, hi)
        self._alive = []           # terms whose ids are used as dictionary keys must stay alive (ids are recycled)
        self.encoded = {}          # qualified function name -> source hash
        self.where = ""
        self.max_loop = 4096
        self.unspec_cast = False
        self.special_hooks = {}
        self.round_float32_stores = True
        self.fast_if = True
        self.extra_roots = {}
        self.assume_casts_in_range = False
        self.cast_assumptions = []
        self.accum_log = set()
        self.par_log = []      # one record per executed prange loop (see _prange)
        self.prange_order = "forward"
        self.lib_overrides = {}
        self._cur = None
        from . import lib
        self.lib = lib
        if facts:
            self.assume(*facts)

    # ------------------------------------------------------------ facts
    def assume(self, *facts):
        if self.facts is None:
            self.facts = z3.Solver()
            self.facts.set("timeout", self.prune_timeout_ms)
        for f in facts:
            f = simp_bool(f)
            if f is True:
                continue
            self.fact_list.append(f)
            self.facts.add(V.to_z3(f))
        self.prune_cache.clear()

    def decide(self, st, cond):
        """Try to decide a boolean value: True / False / term."""
        cond = simp_bool(cond)
        if isinstance(cond, bool):
            return cond
        s = simp_bool(z3.simplify(cond))
        if isinstance(s, bool):
            return s
        mode = self.prune_mode
        if mode == "off" or (self.facts is None and mode == "facts"):
            return cond
        if not self._prunable(cond):
            return cond
        use_pc = mode == "pc"
        key = (cond.get_id(), tuple(p.get_id() for p in st.pc) if use_pc else ())
        hit = self.prune_cache.get(key)
        if hit is not None:
            return hit[0]
        if self.facts is None:
            self.facts = z3.Solver()
            self.facts.set("timeout", self.prune_timeout_ms)
        res = cond
        self.facts.push()
        try:
            if use_pc:
                for p in st.pc:
                    self.facts.add(p)
            nl = len(self.A.lemmas)
            if nl > self._lemmas_in_facts:
                pass
            self.facts.push()
            self.facts.add(z3.Not(cond))
            r1 = str(self.facts.check())
            self.facts.pop()
            if r1 == "unsat":
                res = True
            else:
                self.facts.push()
                self.facts.add(cond)
                r2 = str(self.facts.check())
                self.facts.pop()
                if r2 == "unsat":
                    res = False
        finally:
            self.facts.pop()
        self.prune_cache[key] = (res, cond)
        if res is not cond:
            self.stats["branches_pruned"] += 1
        return res

    def _prunable(self, cond, limit=60):
        """Only small conditions without uninterpreted-function applications are worth a solver call."""
        todo, seen, n = [cond], set(), 0
        while todo:
            x = todo.pop()
            i = x.get_id()
            if i in seen:
                continue
            seen.add(i)
            n += 1
            if n > limit:
                return False
            if z3.is_app(x) and x.decl().kind() == z3.Z3_OP_UNINTERPRETED and x.num_args() > 0:
                return False
            todo.extend(x.children())
        return True

    # ------------------------------------------------------------ obligations
    def oblige(self, st, kind, claim, info=""):
        claim = simp_bool(claim)
        if claim is True:
            self.stats["obligations_folded"] += 1
            return
        guard = z_and(*st.pc)
        if guard is False:
            return
        self.obligations.append(Obligation(kind, guard, claim, info, self.where))

    # ------------------------------------------------------------ modules
    def load_module(self, name):
        if name in self.modules:
            return self.modules[name]
        rel = name.replace(".", "/")
        root = self.extra_roots.get(name.split(".")[0], self.repo)
        path = os.path.join(root, rel + ".py")
        if root != self.repo and not os.path.exists(path):
            path = os.path.join(root, rel, "__init__.py")
        if not os.path.exists(path):
            path = os.path.join(self.repo, rel, "__init__.py")
        if not os.path.exists(path):
            raise Unsupported(f"module {name} not found under {self.repo}")
        src = open(path).read()
        tree = ast.parse(src, filename=path)
        mod = Module(name, path, tree, src)
        self.modules[name] = mod
        pkg = name.rsplit(".", 1)[0] if not path.endswith("__init__.py") else name
        for node in tree.body:
            if isinstance(node, ast.Import):
                for a in node.names:
                    mod.globals[a.asname or a.name.split(".")[0]] = ModuleRef(a.name if a.asname else a.name.split(".")[0])
            elif isinstance(node, ast.ImportFrom):
                self._bind_importfrom(mod.globals, node, pkg)
            elif isinstance(node, ast.FunctionDef):
                mod.globals[node.name] = UserFunc(mod, node)
            elif isinstance(node, ast.ClassDef):
                mod.globals[node.name] = UserClass(mod, node)
            elif isinstance(node, ast.Assign):
                # module-level constants (simple literals only)
                try:
                    val = ast.literal_eval(node.value)
                    for t in node.targets:
                        if isinstance(t, ast.Name):
                            mod.globals[t.id] = val
                except Exception:
                    pass
        return mod

    def _bind_importfrom(self, target, node, pkg):
        base = node.module or ""
        if node.level:
            parts = pkg.split(".")
            if node.level > 1:
                parts = parts[: -(node.level - 1)]
            base = ".".join(parts + ([node.module] if node.module else []))
        for a in node.names:
            nm = a.asname or a.name
            if base.startswith("hdc") or base.split(".")[0] in self.extra_roots:
                target[nm] = ("lazy", base, a.name)
            else:
                target[nm] = LibRef(f"{base}.{a.name}")

    def resolve_lazy(self, v):
        if isinstance(v, tuple) and len(v) == 3 and v[0] == "lazy":
            _, base, name = v
            try:
                m = self.load_module(base)
                if name in m.globals:
                    return self.resolve_lazy(m.globals[name])
            except Unsupported:
                pass
            try:
                return ModuleRefUser(self.load_module(base + "." + name))
            except Unsupported:
                raise Unsupported(f"cannot resolve {base}.{name}")
        return v

    def get_function(self, module, name):
        m = self.load_module(module)
        f = self.resolve_lazy(m.globals[name])
        if not isinstance(f, (UserFunc, UserClass)):
            raise Unsupported(f"{module}.{name} is not a function")
        return f

    def note_encoded(self, fn):
        key = f"{fn.module.name}.{fn.name}"
        if key not in self.encoded:
            seg = ast.get_source_segment(fn.module.src, fn.node) or ""
            self.encoded[key] = hashlib.sha256(seg.encode()).hexdigest()[:16]

    # ------------------------------------------------------------ arrays
    def new_array(self, st, shape, dtype, fill=None, cells=None):
        if isinstance(shape, int):
            shape = (shape,)
        shape = tuple(shape)
        n = 1
        for s in shape:
            if not isinstance(s, int):
                raise Unsupported("symbolic array shape")
            n *= s
        bid = new_bufid()
        if cells is None:
            cells = [fill] * n
        else:
            cells = list(cells)
            assert len(cells) == n, (len(cells), n)
        st.heap[bid] = cells
        st.owned.add(bid)
        return Arr(bid, 0, shape, c_strides(shape), norm_dtype(dtype))

    def arr_cells(self, st, a):
        if isinstance(a, CArr):
            raise Unsupported("cells of compacted array")
        buf = st.heap[a.bufid]
        if State.access_log is not None:
            for p in a.positions():
                State.access_log("r", a.bufid, p, st)
        return [buf[p] for p in a.positions()]

    def read_cell(self, st, a, pos):
        if State.access_log is not None:
            State.access_log("r", a.bufid, pos, st)
        v = st.heap[a.bufid][pos]
        if isinstance(v, Partial):
            self.oblige(st, "uninit-read", v.defined, f"read of {v.what}")
            v = v.value
        if self.narrow is not None and a.dtype == "float32" and is_sym(v):
            self.narrow[id(v)] = v
        return v

    # ---- single-precision values (DESIGN 4.2 "narrow arithmetic"): a value read from a float32 array stays single precision
    # until it is cast (float64(x)) or meets a wider operand; an operation between two such values is carried out in single
    # precision by Numba/NumPy.  Tags are kept per Python wrapper object, so the cast returns a fresh wrapper of the same term.
    def is_narrow(self, v):
        return self.narrow is not None and id(v) in self.narrow

    def widen(self, v):
        if self.is_narrow(v) and isinstance(v, z3.ExprRef):
            return type(v)(v.ast, v.ctx)
        return v

    def narrow_op(self, st, name, a, b, res):
        """Obligation for a single-precision operation: the exact result is representable (sufficient: an integer of at
        most 24 bits when both operands are integer valued; otherwise the claim is False, i.e. reaching it is enough)."""
        lim = 1 << 24
        claim = False
        try:
            def intlike(v):
                return V.is_int_valued(v) or (is_sym(v) and z3.is_app_of(v, z3.Z3_OP_TO_REAL))
            if intlike(a) and intlike(b) and is_sym(res):
                claim = z_and(self.A.cmp("<=", res, lim), self.A.cmp(">=", res, -lim))
        except Exception:  # noqa
            claim = False
        self.oblige(st, "narrow-arithmetic", claim, f"float32 {name} of two float32 values")
        if is_sym(res) and isinstance(res, z3.ExprRef):
            res = type(res)(res.ast, res.ctx)
            self.narrow[id(res)] = res
        return res

    def arr_values(self, st, a):
        if isinstance(a, CArr):
            raise Unsupported("values of compacted array")
        return [self.read_cell(st, a, p) for p in a.positions()]

    def cast_store(self, st, dtype, v, what="store"):
        """Value as it lands in an array of `dtype` (DESIGN 4.2 casts at stores)."""
        if self.concrete:
            return self.lib.concrete_cast(dtype, v)
        if isinstance(v, Partial):
            return Partial(self.cast_store(st, dtype, v.value, what), v.defined, v.what)
        if dtype == "bool":
            if V.is_boolish(v):
                return v
            return self.A.truthy(v)
        if dtype == "object" or dtype == "str":
            return v
        v = V.num_of_bool(v)
        if dtype in FLOAT_DTYPES:
            if is_sym(v) and z3.is_int(v):
                return z3.ToReal(v)
            if dtype == "float32" and V.is_conc_num(v) and not V.is_nonfinite(v) and self.round_float32_stores:
                # a CONSTANT stored into a float32 array is rounded to single precision (symbolic values stay exact reals)
                import numpy as np
                from fractions import Fraction
                r = Fraction(float(np.float32(float(v))))
                return int(r) if r.denominator == 1 else r
            return v
        if dtype in INT_RANGES:
            lo, hi = INT_RANGES[dtype]
            if V.is_nonfinite(v):
                self.oblige(st, "cast-range", False, f"non-finite value stored into {dtype} ({what})")
                return self.A.fresh("unspec_cast", "int")
            if not V.is_int_valued(v):
                v = self.A.trunc(v)
            if not is_sym(v):
                if lo <= v <= hi:
                    return v
                self.oblige(st, "cast-range", False, f"{v} stored into {dtype} ({what})")
                width = hi - lo + 1
                return (v - lo) % width + lo
            inr = z3.And(v >= lo, v <= hi)
            if self.assume_casts_in_range:
                # the property puts out-of-range results outside the claim: recorded as an assumption of the queries
                self.cast_assumptions.append(z3.Implies(V.to_z3(z_and(*st.pc)), inr))
                return v
            self.oblige(st, "cast-range", inr, f"value stored into {dtype} ({what})")
            if self.unspec_cast:
                return z3.If(inr, v, self.A.fresh("unspec_cast", "int"))
            if dtype in ("int64", "uint64"):
                return v
            width = hi - lo + 1
            d = self.decide(st, inr)
            if d is True:
                return v
            return z3.If(inr, v, (v - lo) % width + lo)
        raise Unsupported(f"store into dtype {dtype}")

    def write_cell(self, st, a, pos, v, cast=True):
        if a.readonly:
            self.oblige(st, "readonly-write", False, "write to an input buffer declared read-only")
        if cast:
            v = self.cast_store(st, a.dtype, v)
        st.wbuf(a.bufid, pos)[pos] = v

    # ------------------------------------------------------------ merging
    def merge(self, c, st_t, st_f):
        """Merge two states forked from the same parent under condition c (true -> st_t)."""
        A = self.A
        out = State()
        out.pc = None  # set by caller
        # heap
        for bid in set(st_t.heap) | set(st_f.heap):
            bt = st_t.heap.get(bid)
            bf = st_f.heap.get(bid)
            if bt is None:
                out.heap[bid] = bf
            elif bf is None:
                out.heap[bid] = bt
            elif bt is bf:
                out.heap[bid] = bt
            else:
                out.heap[bid] = [x if (x is y or same(x, y)) else self.ite_any(c, x, y) for x, y in zip(bt, bf)]
                out.owned.add(bid)
        # env
        for k in set(st_t.env) | set(st_f.env):
            if k in st_t.env and k in st_f.env:
                out.env[k] = self.merge_value(out, c, st_t.env[k], st_f.env[k], st_t, st_f)
            elif k in st_t.env:
                out.env[k] = self._partial(st_t.env[k], c, k)
            else:
                out.env[k] = self._partial(st_f.env[k], z_not(c), k)
        out.brk = A.ite(c, st_t.brk, st_f.brk)
        out.cont = A.ite(c, st_t.cont, st_f.cont)
        out.ret = A.ite(c, st_t.ret, st_f.ret)
        out.exc = A.ite(c, st_t.exc, st_f.exc)
        if st_t.retval is None and st_f.retval is None:
            out.retval = None
        elif st_t.ret is False:
            out.retval = st_f.retval
        elif st_f.ret is False:
            out.retval = st_t.retval
        else:
            out.retval = self.merge_value(out, c, st_t.retval, st_f.retval, st_t, st_f)
        nbase = 0
        while (nbase < len(st_t.exc_list) and nbase < len(st_f.exc_list)
               and st_t.exc_list[nbase] is st_f.exc_list[nbase]):
            nbase += 1
        out.exc_list = (st_t.exc_list[:nbase] + [(z_and(c, g), k, m) for g, k, m in st_t.exc_list[nbase:]]
                        + [(z_and(z_not(c), g), k, m) for g, k, m in st_f.exc_list[nbase:]])
        nb = 0
        while nb < len(st_t.yields) and nb < len(st_f.yields) and st_t.yields[nb] is st_f.yields[nb]:
            nb += 1
        out.yields = (st_t.yields[:nb] + [(z_and(c, g), v) for g, v in st_t.yields[nb:]]
                      + [(z_and(z_not(c), g), v) for g, v in st_f.yields[nb:]])
        return out

    def ite_any(self, c, x, y):
        try:
            return self.A.ite(c, x, y)
        except Unsupported:
            return Choice(c, x, y)

    def _partial(self, v, cond, name):
        if isinstance(v, Partial):
            return Partial(v.value, z_and(cond, v.defined), v.what)
        if isinstance(v, (UserFunc, UserClass, ModuleRef, LibRef)):
            return v
        return Partial(v, cond, f"local '{name}'")

    def merge_value(self, out, c, a, b, st_t, st_f):
        if a is b:
            return a
        if isinstance(a, Arr) and isinstance(b, Arr):
            if a.same_view(b):
                return a
            if a.shape != b.shape:
                # a stale binding from an earlier loop iteration meets a new one: only an error if it is read afterwards
                return Conflict(f"arrays with shapes {a.shape} / {b.shape}")
            ca = [st_t.heap[a.bufid][p] for p in a.positions()]
            cb = [st_f.heap[b.bufid][p] for p in b.positions()]
            cells = [x if same(x, y) else self.A.ite(c, x, y) for x, y in zip(ca, cb)]
            dt = a.dtype if a.dtype == b.dtype else "float64"
            return self.new_array(out, a.shape, dt, cells=cells)
        if isinstance(a, CArr) and isinstance(b, CArr) and len(a.elems) == len(b.elems):
            return CArr([self.A.ite(c, x, y) for x, y in zip(a.elems, b.elems)],
                        [self.A.ite(c, x, y) for x, y in zip(a.mask, b.mask)], a.dtype)
        if hasattr(a, "pysym_merge") and type(a) is type(b):
            r = a.pysym_merge(self, c, b)
            if r is not None:
                return r
        if isinstance(a, Partial) or isinstance(b, Partial):
            av, ad = (a.value, a.defined) if isinstance(a, Partial) else (a, True)
            bv, bd = (b.value, b.defined) if isinstance(b, Partial) else (b, True)
            what = a.what if isinstance(a, Partial) else b.what
            try:
                val = self.merge_value(out, c, av, bv, st_t, st_f)
            except Unsupported:
                if simp_bool(ad) is False:
                    val = bv
                elif simp_bool(bd) is False:
                    val = av
                else:
                    raise
            d = simp_bool(self.A.ite(c, ad, bd))
            return val if d is True else Partial(val, d, what)
        if isinstance(a, list) and isinstance(b, list) and len(a) == len(b):
            return [self.merge_value(out, c, x, y, st_t, st_f) for x, y in zip(a, b)]
        if isinstance(a, tuple) and isinstance(b, tuple) and len(a) == len(b):
            return tuple(self.merge_value(out, c, x, y, st_t, st_f) for x, y in zip(a, b))
        if a is None or b is None or isinstance(a, str) or isinstance(b, str):
            if a == b:
                return a
            return Choice(c, a, b)
        if isinstance(a, Choice) or isinstance(b, Choice):
            return Choice(c, a, b)
        if isinstance(a, Instance) and isinstance(b, Instance) and a.cls is b.cls:
            inst = Instance(a.cls)
            for k in a.fields:
                inst.fields[k] = self.merge_value(out, c, a.fields[k], b.fields[k], st_t, st_f)
            return inst
        try:
            return self.A.ite(c, a, b)
        except Unsupported:
            return Choice(c, a, b)

    # ------------------------------------------------------------ running
    def call_function(self, st, fn, args, kwargs=None):
        """Inline a user function; returns the (possibly merged) return value."""
        kwargs = kwargs or {}
        self.stats["calls"] += 1
        if fn.name in self.overrides:
            return self.overrides[fn.name](self, st, args, kwargs)
        self.note_encoded(fn)
        node = fn.node
        env = {}
        a = node.args
        params = [p.arg for p in a.posonlyargs + a.args]
        defaults = a.defaults
        if len(args) > len(params) and not a.vararg:
            raise Unsupported(f"too many positional args for {fn.name}")
        for p, v in zip(params, args):
            env[p] = v
        ndef = len(defaults)
        for i, p in enumerate(params):
            if p in env:
                continue
            if p in kwargs:
                env[p] = kwargs[p]
                continue
            di = i - (len(params) - ndef)
            if di >= 0:
                env[p] = self.eval_default(fn, defaults[di])
            else:
                raise Raised("TypeError", f"missing argument {p} for {fn.name}")
        for p, d in zip(a.kwonlyargs, a.kw_defaults):
            if p.arg in kwargs:
                env[p.arg] = kwargs[p.arg]
            elif d is not None:
                env[p.arg] = self.eval_default(fn, d)
        for k in kwargs:
            if k not in params and k not in [p.arg for p in a.kwonlyargs]:
                raise Raised("TypeError", f"unexpected keyword {k} for {fn.name}")
        saved = (st.env, st.brk, st.cont, st.ret, st.retval, getattr(st, "module", None), getattr(st, "closure", None))
        if getattr(fn, "owner_cls", None) is not None and a.args:
            env["__class__"] = fn.owner_cls     # as CPython's implicit cell: what zero-argument super() starts from
            env["__self__"] = env.get(a.args[0].arg)
        st.env = env
        st.brk = st.cont = st.ret = False
        st.retval = None
        st.module = fn.module
        st.closure = fn.closure
        try:
            if isinstance(node, ast.Lambda):
                rv = self.eval(st, node.body)
            else:
                self.exec_block(st, node.body)
                rv = st.retval
        finally:
            (env0, brk0, cont0, ret0, retval0, mod0, clo0) = saved
            st.env = env0
            st.brk, st.cont, st.ret, st.retval = brk0, cont0, ret0, retval0
            st.module = mod0
            st.closure = clo0
        return rv

    def eval_default(self, fn, node):
        tmp = State()
        tmp.module = fn.module
        tmp.closure = None
        return self.eval(tmp, node)

    # ------------------------------------------------------------ statements
    def stopped(self, st):
        return z_or(st.brk, st.cont, st.ret, st.exc)

    def exec_block(self, st, stmts):
        for i, s in enumerate(stmts):
            self.exec_stmt(st, s)
            stop = self.stopped(st)
            if stop is False:
                continue
            if stop is True:
                return
            stop = self.decide(st, stop)
            if stop is True:
                return
            if stop is False:
                continue
            rest = stmts[i + 1:]
            if not rest:
                return
            # run the remaining statements only where not stopped
            self.branch(st, z_not(stop), lambda s2: self.exec_block(s2, rest), None, keep_flags=True)
            return

    def branch(self, st, cond, then_fn, else_fn, keep_flags=False):
        """Symbolic two-way branch with phi-merge; mutates st in place."""
        self.stats["branches_sym"] += 1
        st_t = st.fork()
        st_t.module, st_t.closure = getattr(st, "module", None), getattr(st, "closure", None)
        st_t.pc.append(V.to_z3(cond))
        st_f = st.fork()
        st_f.module, st_f.closure = st_t.module, st_t.closure
        st_f.pc.append(V.to_z3(z_not(cond)))
        if keep_flags:
            # the true arm continues past the stop point: clear the flags there
            st_t.brk = st_t.cont = st_t.ret = st_t.exc = False
            saved_rv = st_t.retval
        if then_fn:
            then_fn(st_t)
        if else_fn:
            else_fn(st_f)
        if keep_flags and st_t.ret is False:
            st_t.retval = saved_rv
        m = self.merge(cond, st_t, st_f)
        st.env, st.heap = m.env, m.heap
        st.owned = m.owned
        st.brk, st.cont, st.ret, st.retval, st.exc = m.brk, m.cont, m.ret, m.retval, m.exc
        st.exc_list, st.yields = m.exc_list, m.yields

    def exec_stmt(self, st, s):
        self.stats["stmts"] += 1
        self.where = f"{st.module.name if getattr(st, 'module', None) else '?'}:{getattr(s, 'lineno', 0)}"
        m = getattr(self, "st_" + type(s).__name__, None)
        if m is None:
            raise Unsupported(f"statement {type(s).__name__} at {self.where}")
        m(st, s)

    def st_Pass(self, st, s):
        pass

    def st_Expr(self, st, s):
        if isinstance(s.value, ast.Constant):
            return
        if isinstance(s.value, (ast.Yield, ast.YieldFrom)):
            self.eval(st, s.value)
            return
        self.eval(st, s.value)

    def st_Import(self, st, s):
        for a in s.names:
            st.env[a.asname or a.name.split(".")[0]] = ModuleRef(a.name if a.asname else a.name.split(".")[0])

    def st_ImportFrom(self, st, s):
        pkg = st.module.name.rsplit(".", 1)[0]
        tmp = {}
        self._bind_importfrom(tmp, s, pkg)
        for k, v in tmp.items():
            st.env[k] = self.resolve_lazy(v)

    def st_FunctionDef(self, st, s):
        st.env[s.name] = UserFunc(st.module, s, closure=st.env)

    def st_Assert(self, st, s):
        c = self.truth(st, self.eval(st, s.test))
        c = self.decide(st, c)
        if c is True:
            return
        self.raise_exc(st, z_not(c), "AssertionError", ast.unparse(s.test))

    def st_Return(self, st, s):
        st.retval = self.eval(st, s.value) if s.value is not None else None
        st.ret = True

    def st_Break(self, st, s):
        st.brk = True

    def st_Continue(self, st, s):
        st.cont = True

    def st_Raise(self, st, s):
        kind = "Exception"
        msg = ""
        if s.exc is not None:
            if isinstance(s.exc, ast.Call):
                kind = ast.unparse(s.exc.func)
                msg = ast.unparse(s.exc.args[0]) if s.exc.args else ""
            else:
                kind = ast.unparse(s.exc)
        self.raise_exc(st, True, kind, msg)

    def raise_exc(self, st, cond, kind, msg=""):
        cond = simp_bool(cond)
        if cond is False:
            return
        guard = z_and(*st.pc, cond)
        st.exc_list = st.exc_list + [(guard, kind, msg)]
        st.exc = z_or(st.exc, cond)

    def st_Try(self, st, s):
        n0 = len(st.exc_list)
        exc0 = st.exc
        self.exec_block(st, s.body)
        new = st.exc_list[n0:]
        if not new:
            if s.finalbody:
                self.exec_block(st, s.finalbody)
            return
        # handlers: only concrete dispatch on exception kind names
        handled_any = False
        for h in s.handlers:
            names = []
            if h.type is None:
                names = None
            elif isinstance(h.type, ast.Tuple):
                names = [ast.unparse(e) for e in h.type.elts]
            else:
                names = [ast.unparse(h.type)]
            hit = [(g, k, m) for (g, k, m) in new if names is None or k in names or "Exception" in names]
            if not hit:
                continue
            handled_any = True
            cond_here = z_or(*[self._local_cond(st, g) for g, _, _ in hit])
            st.exc_list = st.exc_list[:n0] + [e for e in new if e not in hit]
            st.exc = z_or(exc0, *[self._local_cond(st, g) for g, _, _ in st.exc_list[n0:]])
            cond_here = self.decide(st, cond_here)
            if cond_here is True:
                self.exec_block(st, h.body)
            elif cond_here is not False:
                self.branch(st, cond_here, lambda s2, h=h: self.exec_block(s2, h.body), None)
            new = st.exc_list[n0:]
        if s.finalbody:
            self.exec_block(st, s.finalbody)

    def _local_cond(self, st, guard):
        return guard

    def st_Assign(self, st, s):
        v = self.eval(st, s.value)
        for t in s.targets:
            self.assign(st, t, v)

    def st_AnnAssign(self, st, s):
        if s.value is not None:
            self.assign(st, s.target, self.eval(st, s.value))

    def st_AugAssign(self, st, s):
        if isinstance(s.target, ast.Subscript):
            b = self.eval(st, s.target.value)
            if isinstance(b, Arr):
                self.accum_log.add((b.dtype, type(s.op).__name__))
        cur = self.eval(st, _as_load(s.target))
        rhs = self.eval(st, s.value)
        v = self.binop(st, s.op, cur, rhs)
        self.assign(st, s.target, v)

    def assign(self, st, t, v):
        if isinstance(t, ast.Name):
            if isinstance(v, list):
                v = list(v)
            st.env[t.id] = v
        elif isinstance(t, (ast.Tuple, ast.List)):
            items = self.iter_values(st, v)
            if len(items) != len(t.elts):
                raise Raised("ValueError", "unpack length mismatch")
            for tt, vv in zip(t.elts, items):
                self.assign(st, tt, vv)
        elif isinstance(t, ast.Subscript):
            base = self.eval(st, t.value)
            idx = self.eval_index(st, t.slice)
            self.setitem(st, base, idx, v)
        elif isinstance(t, ast.Attribute):
            base = self.eval(st, t.value)
            if isinstance(base, Instance):
                base.fields[t.attr] = v
            elif hasattr(base, "__dict__") or hasattr(base, "__slots__"):
                setattr(base, t.attr, v)
            else:
                raise Unsupported(f"attribute assignment on {type(base).__name__}")
        else:
            raise Unsupported(f"assignment target {type(t).__name__}")

    def st_If(self, st, s):
        c = self.truth(st, self.eval(st, s.test))
        c = self.decide(st, c)
        if c is True:
            self.exec_block(st, s.body)
        elif c is False:
            self.exec_block(st, s.orelse)
        else:
            if self.fast_if and self._fast_if(st, s, c):
                return
            self.branch(st, c, lambda s2: self.exec_block(s2, s.body),
                        (lambda s2: self.exec_block(s2, s.orelse)) if s.orelse else None)

    # ---- if-conversion without forking, for branches made of plain assignments -------------------------
    _PURE_CALLS = {"abs", "pow", "float64", "int64", "float32", "min", "max", "round", "log", "sqrt", "float", "int"}

    def _plan_block(self, blk):
        plan, written = [], set()
        for stmt in blk:
            if isinstance(stmt, ast.Pass):
                continue
            if isinstance(stmt, ast.Assign) and len(stmt.targets) == 1:
                tgt, val, aug = stmt.targets[0], stmt.value, None
            elif isinstance(stmt, ast.AugAssign):
                tgt, val, aug = stmt.target, stmt.value, stmt.op
            else:
                return None
            if isinstance(tgt, ast.Name):
                wname = tgt.id
                reads = [val] + ([_as_load(tgt)] if aug else [])
            elif isinstance(tgt, ast.Subscript) and isinstance(tgt.value, ast.Name):
                wname = tgt.value.id
                reads = [val, tgt.slice] + ([_as_load(tgt)] if aug else [])
            else:
                return None
            for r in reads:
                for node in ast.walk(r):
                    if isinstance(node, ast.Call):
                        f = node.func
                        nm = f.id if isinstance(f, ast.Name) else None
                        if nm not in self._PURE_CALLS:
                            return None
                    if isinstance(node, (ast.Lambda, ast.ListComp, ast.Yield, ast.YieldFrom, ast.NamedExpr, ast.IfExp, ast.BoolOp)):
                        return None
                    if isinstance(node, ast.Name) and node.id in written and not (aug and node is getattr(r, "value", None)):
                        return None
            if aug and wname in written:
                return None
            written.add(wname)
            plan.append((tgt, val, aug))
        return plan

    def _fast_if(self, st, s, c):
        plans = []
        for blk in (s.body, s.orelse):
            pl = self._plan_block(blk)
            if pl is None:
                return False
            plans.append(pl)
        n_ob = len(self.obligations)
        sides = []
        try:
            for pl, cond in zip(plans, (c, z_not(c))):
                st.pc.append(V.to_z3(cond))
                rec = {}
                try:
                    for tgt, val, aug in pl:
                        v = self.eval(st, val)
                        if isinstance(v, (Arr, CArr, list, dict, Instance, Choice)) or isinstance(v, tuple):
                            raise _NoFast()
                        if isinstance(tgt, ast.Name):
                            if aug is not None:
                                v = self.binop(st, aug, self.eval(st, _as_load(tgt)), v)
                            rec[("name", tgt.id)] = v
                        else:
                            base = self.eval(st, tgt.value)
                            idx = self.eval_index(st, tgt.slice)
                            if not isinstance(base, Arr):
                                raise _NoFast()
                            idxs = idx if isinstance(idx, tuple) else (idx,)
                            if len(idxs) != base.ndim or not all(isinstance(i, int) and not isinstance(i, bool) for i in idxs):
                                raise _NoFast()
                            pos_idx = []
                            for i, nax in zip(idxs, base.shape):
                                j = i + nax if i < 0 else i
                                if not 0 <= j < nax:
                                    raise _NoFast()
                                pos_idx.append(j)
                            if aug is not None:
                                self.accum_log.add((base.dtype, type(aug).__name__))
                                v = self.binop(st, aug, self.read_cell(st, base, base.pos(pos_idx)), v)
                            if base.readonly:
                                raise _NoFast()
                            rec[("cell", base.bufid, base.pos(pos_idx))] = (self.cast_store(st, base.dtype, v), base)
                finally:
                    st.pc.pop()
                sides.append(rec)
        except _NoFast:
            del self.obligations[n_ob:]
            return False
        self.stats["fast_ifs"] = self.stats.get("fast_ifs", 0) + 1
        rt, rf = sides
        for key in list(rt) + [k for k in rf if k not in rt]:
            if key[0] == "name":
                nm = key[1]
                old = st.env.get(nm, _MISSING)
                a = rt.get(key, old)
                b = rf.get(key, old)
                if a is _MISSING:
                    st.env[nm] = self._partial(b, z_not(c), nm)
                elif b is _MISSING:
                    st.env[nm] = self._partial(a, c, nm)
                else:
                    st.env[nm] = self.merge_value(st, c, a, b, st, st)
            else:
                _, bid, pos = key
                old = st.heap[bid][pos]
                a = rt[key][0] if key in rt else old
                b = rf[key][0] if key in rf else old
                st.wbuf(bid, pos)[pos] = a if same(a, b) else self.ite_any(c, a, b)
        return True

    def st_While(self, st, s):
        it = 0
        self._loop(st, s, lambda k: None, None, while_test=s.test)

    def st_For(self, st, s):
        itv = self.eval(st, s.iter)
        if type(itv).__name__ == "PRange":
            return self._prange(st, s, itv.inner)
        items = self.loop_items(st, itv)
        self._loop(st, s, None, items)

    def _prange(self, st, s, rng):
        """numba.prange: iterations are executed one after the other in `self.prange_order` ("forward" / "reverse"); every access to a
        buffer that exists before the loop is logged per iteration (self.par_log), names assigned in the body are private to
        an iteration (deleted / restored at its start), names defined before the loop and re-assigned inside are reported as
        carried (a reduction or a race in Numba's semantics; the harness decides)."""
        marker = new_bufid()
        assigned = set()
        for node in s.body:
            for sub in ast.walk(node):
                if isinstance(sub, ast.Name) and isinstance(sub.ctx, ast.Store):
                    assigned.add(sub.id)
        pre = {n: st.env[n] for n in assigned if n in st.env}
        rec = {"loop": f"{self.where}", "marker": marker, "iters": [], "accesses": {}, "carried": sorted(pre)}
        self.par_log.append(rec)
        order = list(rng)
        if getattr(self, "prange_order", "forward") == "reverse":
            order = order[::-1]
        saved_hook = State.access_log
        for k in order:
            for n in assigned:
                if n in pre:
                    st.env[n] = pre[n]
                else:
                    st.env[n] = Partial(0, False, f"{n} (private to one prange iteration)")
            rec["iters"].append(k)

            def hook(kind, bid, pos, state, k=k):
                if bid >= marker:
                    return
                g = z_and(*state.pc) if state.pc else True
                rec["accesses"].setdefault((bid, pos), []).append((kind, k, g))
            State.access_log = hook
            try:
                self._iteration(st, s, lambda k=k: k)
            finally:
                State.access_log = saved_hook
            if z_or(st.brk, st.ret) is not False:
                raise Unsupported("break / return inside a prange loop")
        rec["private_names"] = sorted(assigned - set(pre))

    def loop_items(self, st, itv):
        """-> list of (guard_or_True, value_thunk)."""
        if isinstance(itv, SymRange) and is_sym(itv.start):
            # symbolic start, concrete stop, unit step: candidates from the start's interval, each run only if in range
            if itv.step not in (1, -1):
                raise Unsupported("range with symbolic start needs a unit step")
            if is_sym(itv.stop):
                # both ends symbolic: every candidate between the bounds of the two ends, run only if inside [start, stop)
                lo, _ = self.bounds_of(itv.start)
                _, hi = self.bounds_of(itv.stop)
                lo2, _ = self.bounds_of(itv.stop)
                _, hi2 = self.bounds_of(itv.start)
                if None in (lo, hi, lo2, hi2) or hi - lo > self.max_loop:
                    raise Unsupported("no bounds known for a range with two symbolic ends")
                if itv.step == 1:
                    return [(z_and(self.A.cmp(">=", k, itv.start), self.A.cmp("<", k, itv.stop)), (lambda kk=k: kk), "skip")
                            for k in range(lo, hi)]
                return [(z_and(self.A.cmp("<=", k, itv.start), self.A.cmp(">", k, itv.stop)), (lambda kk=k: kk), "skip")
                        for k in range(hi2, lo2, -1)]
            lo, hi = self.bounds_of(itv.start)
            if lo is None or hi is None:
                raise Unsupported("no bounds known for symbolic range start")
            out = []
            if itv.step == -1:
                for k in range(hi, itv.stop, -1):
                    out.append((self.A.cmp("<=", k, itv.start), (lambda kk=k: kk), "skip"))
            else:
                for k in range(lo, itv.stop):
                    out.append((self.A.cmp(">=", k, itv.start), (lambda kk=k: kk), "skip"))
            return out
        if isinstance(itv, SymRange):
            out = []
            k = itv.start
            n = 0
            while True:
                if itv.step > 0:
                    g = self.A.cmp("<", k, itv.stop)
                else:
                    g = self.A.cmp(">", k, itv.stop)
                g = simp_bool(g)
                if g is False:
                    break
                if g is not True:
                    lo, hi = self.bounds_of(itv.stop)
                    if itv.step > 0 and hi is not None and k >= hi:
                        break
                    if itv.step < 0 and lo is not None and k <= lo:
                        break
                out.append((g, (lambda kk=k: kk)))
                k += itv.step
                n += 1
                if n > self.max_loop:
                    raise Unsupported("loop bound not found for symbolic range")
            return out
        if isinstance(itv, range):
            return [(True, (lambda kk=k: kk)) for k in itv]
        if isinstance(itv, Arr):
            if itv.ndim == 1:
                return [(True, (lambda i=i, a=itv: self.read_cell(self._cur, a, a.pos((i,))))) for i in range(itv.shape[0])]
            return [(True, (lambda i=i, a=itv: self.getitem(self._cur, a, i))) for i in range(itv.shape[0])]
        if isinstance(itv, CArr):
            n = len(itv.elems)
            size = self.carr_size(itv)
            return [(self.A.cmp("<", k, size), (lambda k=k, a=itv: self.carr_get(self._cur, a, k))) for k in range(n)]
        if isinstance(itv, (list, tuple)):
            return [(True, (lambda x=x: x)) for x in itv]
        if isinstance(itv, Enumerate):
            inner = self.loop_items(st, itv.inner)
            return [(it_[0], (lambda i=i, th=it_[1]: (i + itv.start, th()))) for i, it_ in enumerate(inner)]
        if isinstance(itv, Zip):
            inners = [self.loop_items(st, x) for x in itv.inners]
            n = min(len(x) for x in inners)
            return [(z_and(*[x[i][0] for x in inners]), (lambda i=i: tuple(x[i][1]() for x in inners))) for i in range(n)]
        raise Unsupported(f"iteration over {type(itv).__name__}")

    def bounds_of(self, v, depth=0):
        """Structural interval of an integer term (ite / + / - / constant multiples), with registered bounds as leaves."""
        if not is_sym(v):
            return (v, v)
        hit = self.int_bounds.get(v.get_id())
        if hit is not None:
            return hit
        if depth > 200:
            return (None, None)
        res = (None, None)
        if z3.is_int_value(v):
            res = (v.as_long(), v.as_long())
        elif z3.is_app_of(v, z3.Z3_OP_ITE):
            a = self.bounds_of(v.arg(1), depth + 1)
            b = self.bounds_of(v.arg(2), depth + 1)
            if None not in a and None not in b:
                res = (min(a[0], b[0]), max(a[1], b[1]))
        elif z3.is_app_of(v, z3.Z3_OP_ADD):
            lo = hi = 0
            for c in v.children():
                b = self.bounds_of(c, depth + 1)
                if None in b:
                    lo = None
                    break
                lo += b[0]
                hi += b[1]
            if lo is not None:
                res = (lo, hi)
        elif z3.is_app_of(v, z3.Z3_OP_SUB) and v.num_args() == 2:
            a = self.bounds_of(v.arg(0), depth + 1)
            b = self.bounds_of(v.arg(1), depth + 1)
            if None not in a and None not in b:
                res = (a[0] - b[1], a[1] - b[0])
        elif z3.is_app_of(v, z3.Z3_OP_TO_REAL) or z3.is_app_of(v, z3.Z3_OP_TO_INT):
            res = self.bounds_of(v.arg(0), depth + 1)
        self.int_bounds[v.get_id()] = res
        self._alive.append(v)
        return res

    def _loop(self, st, s, _unused, items, while_test=None):
        def run_from(st, i):
            self._cur = st
            while True:
                if while_test is not None:
                    if i > self.max_loop:
                        raise Unsupported("while loop did not terminate within max_loop")
                    g = self.decide(st, self.truth(st, self.eval(st, while_test)))
                    thunk = None
                else:
                    if i >= len(items):
                        break
                    g, thunk = items[i][0], items[i][1]
                    g = self.decide(st, g) if g is not True else True
                    if len(items[i]) > 2 and items[i][2] == "skip" and g is not True:
                        if g is not False:
                            def one(s2, thunk=thunk):
                                self._cur = s2
                                self._iteration(s2, s, thunk)
                            self.branch(st, g, one, None)
                            self._cur = st
                        dead = z_or(st.brk, st.ret, st.exc)
                        dead = self.decide(st, dead) if dead is not False else False
                        if dead is True:
                            return
                        if dead is not False:
                            self.branch(st, z_not(dead), lambda s2, i=i: run_from(s2, i + 1), None, keep_flags=True)
                            self._cur = st
                            return
                        i += 1
                        continue
                if g is False:
                    break
                if g is not True:
                    # loop may end here: run the remaining iterations under g
                    def cont_fn(s2, i=i, thunk=thunk):
                        self._cur = s2
                        self._iteration(s2, s, thunk)
                        if not self._loop_dead(s2):
                            self._continue_loop(s2, run_from, i + 1)
                    self.branch(st, g, cont_fn, None)
                    self._cur = st
                    return
                self._iteration(st, s, thunk)
                dead = z_or(st.brk, st.ret, st.exc)
                dead = self.decide(st, dead) if dead is not False else False
                if dead is True:
                    return
                if dead is not False:
                    self.branch(st, z_not(dead), lambda s2, i=i: run_from(s2, i + 1), None, keep_flags=True)
                    self._cur = st
                    return
                i += 1
        run_from(st, 0)
        brk = st.brk
        st.brk = False
        st.cont = False
        if s.orelse:
            nb = self.decide(st, z_not(brk))
            if nb is True:
                self.exec_block(st, s.orelse)
            elif nb is not False:
                self.branch(st, nb, lambda s2: self.exec_block(s2, s.orelse), None)

    def _loop_dead(self, st):
        return z_or(st.brk, st.ret, st.exc) is True

    def _continue_loop(self, st, run_from, i):
        dead = z_or(st.brk, st.ret, st.exc)
        dead = self.decide(st, dead) if dead is not False else False
        if dead is True:
            return
        if dead is False:
            run_from(st, i)
        else:
            self.branch(st, z_not(dead), lambda s2: run_from(s2, i), None, keep_flags=True)
            self._cur = st

    def _iteration(self, st, s, thunk):
        if thunk is not None:
            self._cur = st
            self.assign(st, s.target, thunk())
        self.exec_block(st, s.body)
        st.cont = False

    # ------------------------------------------------------------ expressions
    def truth(self, st, v):
        if isinstance(v, Partial):
            self.oblige(st, "undefined-read", v.defined, f"use of {v.what}")
            v = v.value
        if isinstance(v, Arr):
            if v.size == 1:
                return self.A.truthy(self.arr_values(st, v)[0])
            raise Raised("ValueError", "truth value of an array is ambiguous")
        if isinstance(v, Choice):
            return self.A.ite(v.cond, self.truth(st, v.a), self.truth(st, v.b))
        return self.A.truthy(v)

    def eval(self, st, e):
        m = getattr(self, "ex_" + type(e).__name__, None)
        if m is None:
            raise Unsupported(f"expression {type(e).__name__} at {self.where}")
        v = m(st, e)
        return v

    def use(self, st, v):
        """Strip a Partial on use, recording the definedness obligation."""
        if isinstance(v, Conflict):
            raise Unsupported(f"use of a value merged from incompatible {v.what}")
        if isinstance(v, Partial):
            self.oblige(st, "undefined-read", v.defined, f"use of {v.what}")
            return v.value
        return v

    def ex_Constant(self, st, e):
        v = e.value
        if isinstance(v, float):
            return self.A.lit(v)
        return v

    def ex_Name(self, st, e):
        n = e.id
        if n in st.env:
            return self.use(st, st.env[n])
        clo = getattr(st, "closure", None)
        while clo is not None:
            if n in clo:
                return self.use(st, clo[n])
            clo = None
        mod = getattr(st, "module", None)
        if mod is not None and n in mod.globals:
            v = self.resolve_lazy(mod.globals[n])
            if isinstance(v, LibRef) and v.name in self.lib.CONSTANTS:
                mname, attr = v.name.rsplit(".", 1)
                return self.lib.module_attr(self, mname, attr)
            return v
        if n == "NotImplemented":
            return NOTIMPL
        if n == "super" and "__class__" in st.env:
            cls_, self_ = st.env["__class__"], st.env.get("__self__")
            return self.lib.native(lambda it_, st_, *a: SuperProxy(self_, cls_))
        b = self.lib.BUILTINS.get(n)
        if b is not None:
            return b
        raise Raised("NameError", n)

    def ex_Tuple(self, st, e):
        return tuple(self.eval(st, x) for x in e.elts)

    def ex_List(self, st, e):
        return [self.eval(st, x) for x in e.elts]

    def ex_Dict(self, st, e):
        return {self.eval(st, k): self.eval(st, v) for k, v in zip(e.keys, e.values)}

    def ex_JoinedStr(self, st, e):
        parts = []
        for p in e.values:
            if isinstance(p, ast.Constant):
                parts.append(p.value)
            else:
                v = self.eval(st, p.value)
                spec = ""
                if p.format_spec is not None:
                    spec = "".join(x.value for x in p.format_spec.values if isinstance(x, ast.Constant))
                parts.append(self.lib.format_value(self, st, v, spec, p.conversion))
        return self.lib.join_str(self, parts)

    def ex_Lambda(self, st, e):
        return UserFunc(st.module, e, closure=st.env)

    def ex_IfExp(self, st, e):
        c = self.decide(st, self.truth(st, self.eval(st, e.test)))
        if c is True:
            return self.eval(st, e.body)
        if c is False:
            return self.eval(st, e.orelse)
        res = {}

        def t(s2):
            res["t"] = self.eval(s2, e.body)
            res["st_t"] = s2

        def f(s2):
            res["f"] = self.eval(s2, e.orelse)
            res["st_f"] = s2
        self.branch(st, c, t, f)
        return self.merge_value(st, c, res["t"], res["f"], res["st_t"], res["st_f"])

    def ex_NamedExpr(self, st, e):
        v = self.eval(st, e.value)
        self.assign(st, e.target, v)
        return v

    def ex_BoolOp(self, st, e):
        is_and = isinstance(e.op, ast.And)
        vals = e.values
        first = self.eval(st, vals[0])
        return self._boolop(st, is_and, first, vals[1:])

    def _boolop(self, st, is_and, cur, rest):
        if not rest:
            return cur
        c = self.decide(st, self.truth(st, cur))
        if c is True:
            if is_and:
                return self._boolop(st, is_and, self.eval(st, rest[0]), rest[1:])
            return cur
        if c is False:
            if is_and:
                return cur
            return self._boolop(st, is_and, self.eval(st, rest[0]), rest[1:])
        # symbolic: evaluate the remainder under the condition that it is reached
        res = {}
        reach = c if is_and else z_not(c)

        def go(s2):
            res["v"] = self._boolop(s2, is_and, self.eval(s2, rest[0]), rest[1:])
        self.branch(st, reach, go, None)
        rv = res["v"]
        if isinstance(rv, (Arr, CArr)):
            raise Unsupported("array in symbolic short-circuit")
        cu = self.use(st, cur)
        if not (V.is_boolish(cu) and V.is_boolish(self.use(st, rv))):
            # Python's `a or b` / `a and b` return one of the OPERANDS, not a truth value (`nodata or attrs.get("nodata")`)
            try:
                return self.ite_any(c, rv, cu) if is_and else self.ite_any(c, cu, rv)
            except Unsupported:
                pass
        rb = self.truth(st, rv)
        if is_and:
            return z_and(c, rb)
        return z_or(c, rb)

    def ex_UnaryOp(self, st, e):
        v = self.eval(st, e.operand)
        if hasattr(v, "pysym_unary"):
            return v.pysym_unary(self, st, type(e.op).__name__)
        if isinstance(e.op, ast.Not):
            return z_not(self.truth(st, v))
        if isinstance(e.op, ast.USub):
            return self.lib.elementwise1(self, st, self.A.neg, v)
        if isinstance(e.op, ast.UAdd):
            return v
        if isinstance(e.op, ast.Invert):
            if isinstance(v, (Arr, CArr)) or V.is_boolish(v):
                return self.lib.elementwise1(self, st, lambda x: z_not(self.A.truthy(x)), v, dtype="bool")
            if isinstance(v, int):
                return ~v
            raise Unsupported("~ on non-bool")
        raise Unsupported(type(e.op).__name__)

    def ex_BinOp(self, st, e):
        a = self.eval(st, e.left)
        b = self.eval(st, e.right)
        return self.binop(st, e.op, a, b)

    def binop(self, st, op, a, b):
        name = type(op).__name__
        if isinstance(a, Instance) or isinstance(b, Instance):
            return self.instance_binop(st, name, a, b)
        if hasattr(a, "pysym_binop"):
            return a.pysym_binop(self, st, name, b, False)
        if hasattr(b, "pysym_binop"):
            return b.pysym_binop(self, st, name, a, True)
        if isinstance(a, str) and isinstance(b, str) and name == "Add":
            return a + b
        if isinstance(a, (list, tuple)) and isinstance(b, (list, tuple)) and name == "Add":
            return a + b
        if isinstance(a, (Arr, CArr)) or isinstance(b, (Arr, CArr)):
            return self.lib.elementwise2(self, st, lambda x, y: self.scalar_binop(st, name, x, y), a, b, opname=name)
        return self.scalar_binop(st, name, a, b)

    def scalar_binop(self, st, name, a, b):
        A = self.A
        a, b = self.use(st, a), self.use(st, b)
        if isinstance(a, Choice):
            return self.ite_any(a.cond, self.scalar_binop(st, name, a.a, b), self.scalar_binop(st, name, a.b, b))
        if isinstance(b, Choice):
            return self.ite_any(b.cond, self.scalar_binop(st, name, a, b.a), self.scalar_binop(st, name, a, b.b))
        if self.concrete:
            return self.lib.concrete_binop(name, a, b)
        if self.narrow is not None and name in ("Add", "Sub", "Mult") and self.is_narrow(a) and self.is_narrow(b):
            res = A.add(a, b) if name == "Add" else A.sub(a, b) if name == "Sub" else A.mul(a, b)
            return self.narrow_op(st, name, a, b, res)
        if name == "Add":
            return A.add(a, b)
        if name == "Sub":
            return A.sub(a, b)
        if name == "Mult":
            return A.mul(a, b)
        if name == "Div":
            if is_sym(b) or (not V.is_nonfinite(b) and V.num_of_bool(b) == 0):
                self.oblige(st, "zero-division", A.cmp("!=", b, 0), "division")
            return A.div(a, b)
        if name == "FloorDiv":
            if is_sym(b):
                self.oblige(st, "zero-division", A.cmp("!=", b, 0), "floor division")
            return A.floordiv(a, b)
        if name == "Mod":
            return A.mod(a, b)
        if name == "Pow":
            return A.power(a, b)
        if name in ("BitAnd", "BitOr", "BitXor"):
            if V.is_boolish(a) and V.is_boolish(b):
                if name == "BitAnd":
                    return z_and(a, b)
                if name == "BitOr":
                    return z_or(a, b)
                return A.cmp("!=", a, b)
            if isinstance(a, int) and isinstance(b, int):
                return {"BitAnd": a & b, "BitOr": a | b, "BitXor": a ^ b}[name]
        raise Unsupported(f"binary op {name} on {type(a).__name__}, {type(b).__name__}")

    def ex_Compare(self, st, e):
        left = self.eval(st, e.left)
        res = True
        for op, rexp in zip(e.ops, e.comparators):
            right = self.eval(st, rexp)
            r = self.compare(st, op, left, right)
            if isinstance(r, (Arr, CArr)):
                if len(e.ops) != 1:
                    raise Unsupported("chained comparison on arrays")
                return r
            res = z_and(res, r) if not (res is True) else r
            left = right
        return res

    _CMP = {"Eq": "==", "NotEq": "!=", "Lt": "<", "LtE": "<=", "Gt": ">", "GtE": ">="}

    def compare(self, st, op, a, b):
        name = type(op).__name__
        if name in ("Is", "IsNot"):
            a, b = self.use(st, a), self.use(st, b)
            if isinstance(a, Choice) or isinstance(b, Choice):
                ch, other = (a, b) if isinstance(a, Choice) else (b, a)
                r = self.A.ite(ch.cond, self.compare(st, op, ch.a, other), self.compare(st, op, ch.b, other))
                return r
            r = (a is b) or (a is None and b is None)
            if not r and (a is None) != (b is None):
                r = False
            elif not r and not (a is None or b is None):
                r = same(a, b)
            return r if name == "Is" else (not r)
        if name in ("In", "NotIn"):
            items = self.iter_values(st, b) if not isinstance(b, str) else None
            if items is None:
                r = a in b
            else:
                r = z_or(*[self.compare(st, ast.Eq(), a, x) for x in items])
            return r if name == "In" else z_not(r)
        sym = self._CMP[name]
        if isinstance(a, (tuple, list)) and isinstance(b, (tuple, list)) and type(a) is type(b) \
                and any(not isinstance(x, (int, float, str, bool, type(None))) for x in list(a) + list(b)):
            # lexicographic comparison of sequences with symbolic / modelled elements
            n = min(len(a), len(b))
            eqs = [self.compare(st, ast.Eq(), x, y) for x, y in zip(a[:n], b[:n])]
            if sym in ("==", "!="):
                r = z_and(*eqs) if len(a) == len(b) else False
                return r if sym == "==" else z_not(r)
            strict = ast.Lt() if sym in ("<", "<=") else ast.Gt()
            tail = {"<": len(a) < len(b), "<=": len(a) <= len(b), ">": len(a) > len(b), ">=": len(a) >= len(b)}[sym]
            res = tail
            for k in range(n - 1, -1, -1):
                res = z_or(self.compare(st, strict, a[k], b[k]), z_and(eqs[k], res))
            return res
        if isinstance(a, Instance) or isinstance(b, Instance):
            return self.instance_compare(st, name, a, b)
        if hasattr(a, "pysym_compare"):
            return a.pysym_compare(self, st, sym, b, False)
        if hasattr(b, "pysym_compare"):
            return b.pysym_compare(self, st, sym, a, True)
        if isinstance(a, (Arr, CArr)) or isinstance(b, (Arr, CArr)):
            return self.lib.elementwise2(self, st, lambda x, y: self.scalar_compare(st, sym, x, y), a, b, dtype="bool")
        return self.scalar_compare(st, sym, a, b)

    def scalar_compare(self, st, sym, a, b):
        a, b = self.use(st, a), self.use(st, b)
        if isinstance(a, Choice):
            return self.A.ite(a.cond, self.scalar_compare(st, sym, a.a, b), self.scalar_compare(st, sym, a.b, b))
        if isinstance(b, Choice):
            return self.A.ite(b.cond, self.scalar_compare(st, sym, a, b.a), self.scalar_compare(st, sym, a, b.b))
        if a is None or b is None:
            if sym == "==":
                return a is None and b is None
            if sym == "!=":
                return not (a is None and b is None)
            raise Raised("TypeError", "ordering comparison with None")
        if isinstance(a, str) or isinstance(b, str):
            if isinstance(a, str) and isinstance(b, str):
                return V._pycmp(sym, a, b)
            if sym == "==":
                return False
            if sym == "!=":
                return True
            raise Raised("TypeError", "str vs number comparison")
        if isinstance(a, (tuple, list)) and isinstance(b, (tuple, list)):
            if sym in ("==", "!="):
                if len(a) != len(b):
                    return sym == "!="
                r = z_and(*[self.scalar_compare(st, "==", x, y) for x, y in zip(a, b)])
                return r if sym == "==" else z_not(r)
        if self.concrete:
            return V._pycmp(sym, a, b)
        if not self.A.shadow:
            return self.A.cmp(sym, a, b)
        del self.A.pending_divergence[:]
        r = self.A.cmp(sym, a, b)
        for msg in self.A.pending_divergence:
            # the branch the real code takes is not the one the exact value takes: reaching this comparison is the obligation
            self.oblige(st, "float-divergence", False, msg)
        del self.A.pending_divergence[:]
        return r

    def ex_Attribute(self, st, e):
        base = self.eval(st, e.value)
        return self.getattr(st, base, e.attr)

    def getattr(self, st, base, attr):
        base = self.use(st, base)
        if isinstance(base, SuperProxy):
            for bn in base.cls.base_names:
                b = base.cls.module.globals.get(bn)
                b = self.resolve_lazy(b) if b is not None else None
                if isinstance(b, UserClass):
                    b.link_bases(self)
                    if attr in b.methods:
                        return BoundMethod(b.methods[attr], base.selfv)
                    if attr in b.props:
                        return self.call_function(st, b.props[attr], [base.selfv])
            if attr == "__init__":
                return self.lib.native(lambda it_, st_, *a, **k: None)
            raise Raised("AttributeError", f"super().{attr}")
        if isinstance(base, ModuleRef):
            return self.lib.module_attr(self, base.name, attr)
        if isinstance(base, ModuleRefUser):
            g = base.module.globals
            if attr in g:
                return self.resolve_lazy(g[attr])
            raise Raised("AttributeError", attr)
        if isinstance(base, LibRef):
            return self.lib.module_attr(self, base.name, attr)
        if isinstance(base, (Arr, CArr)):
            return self.lib.array_attr(self, st, base, attr)
        if isinstance(base, Instance):
            if attr in base.fields:
                return base.fields[attr]
            cls = base.cls
            cls.link_bases(self)
            if attr in cls.attrs:
                node = cls.attrs[attr]
                owner = cls
                if isinstance(node, tuple):
                    owner, node = node
                tmp = State()
                tmp.module, tmp.closure = owner.module, None
                return self.eval(tmp, node)
            if attr in cls.props:
                return self.call_function(st, cls.props[attr], [base])
            if attr in cls.methods:
                return BoundMethod(cls.methods[attr], base)
            raise Raised("AttributeError", attr)
        if isinstance(base, Choice):
            return Choice(base.cond, self.getattr(st, base.a, attr), self.getattr(st, base.b, attr))
        if isinstance(base, (list, str, dict, tuple)):
            return self.lib.native_method(self, st, base, attr)
        if hasattr(base, "pysym_getattr"):
            return base.pysym_getattr(self, st, attr)
        if hasattr(base, attr):
            return getattr(base, attr)
        raise Unsupported(f"attribute {attr} of {type(base).__name__}")

    def ex_Call(self, st, e):
        fn = self.eval(st, e.func)
        args = []
        for a in e.args:
            if isinstance(a, ast.Starred):
                args.extend(self.iter_values(st, self.eval(st, a.value)))
            else:
                args.append(self.eval(st, a))
        kwargs = {}
        for k in e.keywords:
            if k.arg is None:
                kwargs.update(self.eval(st, k.value))
            else:
                kwargs[k.arg] = self.eval(st, k.value)
        return self.call(st, fn, args, kwargs)

    def call(self, st, fn, args, kwargs):
        if isinstance(fn, UserFunc):
            return self.call_function(st, fn, args, kwargs)
        if isinstance(fn, BoundMethod):
            return self.call_function(st, fn.func, [fn.selfv] + list(args), kwargs)
        if isinstance(fn, UserClass):
            return self.instantiate(st, fn, args, kwargs)
        if isinstance(fn, LibRef):
            return self.lib.call_lib(self, st, fn.name, args, kwargs)
        if isinstance(fn, Choice):
            raise Unsupported("call of a conditional function value")
        if callable(fn):
            return fn(self, st, *args, **kwargs) if getattr(fn, "pysym_native", False) else fn(*args, **kwargs)
        raise Raised("TypeError", f"{type(fn).__name__} is not callable")

    def instantiate(self, st, cls, args, kwargs):
        cls.link_bases(self)
        inst = Instance(cls)
        init = cls.methods.get("__init__")
        if init is not None:
            self.call_function(st, init, [inst] + list(args), kwargs)
        return inst

    def instance_binop(self, st, name, a, b):
        table = {"Add": ("__add__", "__radd__"), "Sub": ("__sub__", "__rsub__"), "Mult": ("__mul__", "__rmul__")}
        if name not in table:
            raise Unsupported(name)
        f, r = table[name]
        if isinstance(a, Instance) and f in a.cls.methods:
            return self.call_function(st, a.cls.methods[f], [a, b])
        if isinstance(b, Instance) and r in b.cls.methods:
            return self.call_function(st, b.cls.methods[r], [b, a])
        raise Raised("TypeError", f"unsupported operand for {name}")

    def instance_compare(self, st, name, a, b):
        table = {"Eq": ("__eq__", "__eq__"), "NotEq": ("__ne__", "__ne__"), "Lt": ("__lt__", "__gt__"),
                 "Gt": ("__gt__", "__lt__"), "LtE": ("__le__", "__ge__"), "GtE": ("__ge__", "__le__")}
        f, r = table[name]
        if isinstance(a, Instance):
            if f in a.cls.methods:
                res = self.call_function(st, a.cls.methods[f], [a, b])
                if not isinstance(res, NotImpl):
                    return res
            elif name == "NotEq" and "__eq__" in a.cls.methods:
                res = self.call_function(st, a.cls.methods["__eq__"], [a, b])
                if not isinstance(res, NotImpl):
                    return z_not(self.truth(st, res))
        if isinstance(b, Instance):
            if r in b.cls.methods:
                res = self.call_function(st, b.cls.methods[r], [b, a])
                if not isinstance(res, NotImpl):
                    return res
        if name == "Eq":
            return a is b
        if name == "NotEq":
            return a is not b
        raise Raised("TypeError", f"comparison {name} not supported")

    def ex_Subscript(self, st, e):
        base = self.eval(st, e.value)
        idx = self.eval_index(st, e.slice)
        return self.getitem(st, base, idx)

    def eval_index(self, st, sl):
        if isinstance(sl, ast.Slice):
            lo = self.eval(st, sl.lower) if sl.lower is not None else None
            hi = self.eval(st, sl.upper) if sl.upper is not None else None
            stp = self.eval(st, sl.step) if sl.step is not None else None
            return SliceV(lo, hi, stp)
        if isinstance(sl, ast.Tuple):
            return tuple(self.eval_index(st, x) for x in sl.elts)
        return self.eval(st, sl)

    def ex_Slice(self, st, e):
        return self.eval_index(st, e)

    def ex_ListComp(self, st, e):
        if len(e.generators) != 1:
            raise Unsupported("nested comprehension")
        g = e.generators[0]
        items = self.loop_items(st, self.eval(st, g.iter))
        out = []
        saved = dict(st.env)
        self._cur = st
        for item_ in items:
            guard, thunk = item_[0], item_[1]
            if guard is not True:
                raise Unsupported("comprehension over symbolic-length iterable")
            self.assign(st, g.target, thunk())
            keep = True
            for cond in g.ifs:
                c = self.decide(st, self.truth(st, self.eval(st, cond)))
                if c is False:
                    keep = False
                    break
                if c is not True:
                    raise Unsupported("comprehension filter with symbolic condition")
            if keep:
                out.append(self.eval(st, e.elt))
        # comprehension variables do not leak
        for k in list(st.env):
            if k not in saved:
                del st.env[k]
        for k, v in saved.items():
            st.env[k] = v
        return out

    ex_GeneratorExp = ex_ListComp

    def ex_DictComp(self, st, e):
        if len(e.generators) != 1:
            raise Unsupported("nested comprehension")
        g = e.generators[0]
        src = self.eval(st, g.iter)
        items = self.loop_items(st, list(src) if not isinstance(src, (list, tuple, Arr, CArr, range)) and hasattr(src, "__iter__") else src)
        out = {}
        saved = dict(st.env)
        self._cur = st
        for item_ in items:
            if item_[0] is not True:
                raise Unsupported("comprehension over symbolic-length iterable")
            self.assign(st, g.target, item_[1]())
            keep = True
            for cond in g.ifs:
                c = self.decide(st, self.truth(st, self.eval(st, cond)))
                if c is False:
                    keep = False
                    break
                if c is not True:
                    raise Unsupported("comprehension filter with symbolic condition")
            if keep:
                out[self.eval(st, e.key)] = self.eval(st, e.value)
        for k in list(st.env):
            if k not in saved:
                del st.env[k]
        for k, v in saved.items():
            st.env[k] = v
        return out

    def ex_Yield(self, st, e):
        v = self.eval(st, e.value) if e.value is not None else None
        st.yields = st.yields + [(z_and(*st.pc), v)]
        return None

    def ex_YieldFrom(self, st, e):
        v = self.eval(st, e.value)
        if isinstance(v, GenResult):
            st.yields = st.yields + [(z_and(z_and(*st.pc), g), x) for g, x in v.items]
            if v.exc_list:
                st.exc_list = st.exc_list + v.exc_list
                st.exc = z_or(st.exc, *[g for g, _, _ in v.exc_list])
            return None
        if v is None:
            return None   # nested generator function already recorded its yields in this state
        raise Unsupported("yield from non-generator")

    # delegated to lib (kept there to keep this file readable)
    def getitem(self, st, base, idx):
        return self.lib.getitem(self, st, base, idx)

    def setitem(self, st, base, idx, v):
        return self.lib.setitem(self, st, base, idx, v)

    def iter_values(self, st, v):
        if isinstance(v, (list, tuple)):
            return list(v)
        if isinstance(v, dict):
            return list(v.keys())
        if isinstance(v, Arr):
            if v.ndim == 1:
                return self.arr_values(st, v)
            return [self.getitem(st, v, i) for i in range(v.shape[0])]
        if isinstance(v, range):
            return list(v)
        if isinstance(v, GenResult):
            return [x for _, x in v.items]
        if hasattr(v, "pysym_iter"):
            return v.pysym_iter(self, st)
        raise Unsupported(f"iteration over {type(v).__name__}")

    def carr_size(self, c):
        return self.lib.carr_size(self, c)

    def carr_get(self, st, c, k):
        return self.lib.carr_get(self, st, c, k)


class SuperProxy:
    """Result of zero-argument super(): attribute lookup continues in the bases of the defining class."""

    def __init__(self, selfv, cls):
        self.selfv, self.cls = selfv, cls


class Conflict:
    def __init__(self, what):
        self.what = what


class _NoFast(Exception):
    pass


_MISSING = object()


class ModuleRefUser:
    def __init__(self, module):
        self.module = module


class NotImpl:
    pass


NOTIMPL = NotImpl()


class Choice:
    """ite over values that have no term representation (None / str / objects)."""

    def __init__(self, cond, a, b):
        self.cond, self.a, self.b = cond, a, b

    def __repr__(self):
        return f"Choice({self.cond}, {self.a!r}, {self.b!r})"


class SliceV:
    def __init__(self, lo, hi, step):
        self.lo, self.hi, self.step = lo, hi, step


class SymRange:
    def __init__(self, start, stop, step):
        self.start, self.stop, self.step = start, stop, step


class Enumerate:
    def __init__(self, inner, start=0):
        self.inner, self.start = inner, start


class Zip:
    def __init__(self, inners):
        self.inners = inners


class GenResult:
    def __init__(self, items, exc_list=None):
        self.items = items
        self.exc_list = exc_list or []


def _as_load(t):
    import copy
    t2 = copy.copy(t)
    t2.ctx = ast.Load()
    return t2
