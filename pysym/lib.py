"""Library stubs for pysym: builtins, math, numpy, numba types, scipy.special contracts; indexing."""
from __future__ import annotations

import math
from fractions import Fraction

import z3

from . import vals as V
from .vals import Unsupported, Partial, is_sym, z_and, z_or, z_not, simp_bool, same
from .arr import Arr, CArr, norm_dtype, slice_indices, INT_RANGES, FLOAT_DTYPES

STUBS_USED = set()


def _interp_types():
    from . import interp as I
    return I


# ---------------------------------------------------------------- concrete mode helpers
def concrete_cast(dtype, v):
    import numpy as np
    if isinstance(v, Partial):
        return v
    if dtype == "bool":
        return bool(v)
    if dtype in ("object", "str"):
        return v
    if dtype in FLOAT_DTYPES:
        return float(np.dtype(dtype).type(v))
    if dtype in INT_RANGES:
        if isinstance(v, float):
            if math.isnan(v) or math.isinf(v):
                return int(np.array([v]).astype(dtype)[0])
            v = int(v)
        lo, hi = INT_RANGES[dtype]
        width = hi - lo + 1
        return (int(v) - lo) % width + lo
    raise Unsupported(dtype)


def concrete_binop(name, a, b):
    if name == "Add":
        return a + b
    if name == "Sub":
        return a - b
    if name == "Mult":
        return a * b
    if name == "Div":
        if b == 0:
            raise I().Raised("ZeroDivisionError", "division by zero")
        return a / b
    if name == "FloorDiv":
        return a // b
    if name == "Mod":
        return a % b
    if name == "Pow":
        try:
            return a ** b
        except ZeroDivisionError:
            return math.inf
    if name == "BitAnd":
        return a & b
    if name == "BitOr":
        return a | b
    raise Unsupported(name)


def I():
    return _interp_types()


# ---------------------------------------------------------------- dtype objects
class DType:
    """numba.core.types.float64 / np.float32 ... : dtype object and cast function."""

    def __init__(self, name):
        self.dtype_name = name
        self.__name__ = name

    def __repr__(self):
        return f"DType({self.dtype_name})"

    @property
    def type(self):
        return self

    @property
    def kind(self):
        n = self.dtype_name
        return "f" if n.startswith("float") else "u" if n.startswith("uint") else "b" if n == "bool" else "i"

    def __eq__(self, other):
        if isinstance(other, DType):
            return self.dtype_name == other.dtype_name
        if isinstance(other, str):
            return norm_dtype(other) == self.dtype_name
        return NotImplemented

    def __hash__(self):
        return hash(self.dtype_name)


DTYPES = {n: DType(n) for n in ("float64", "float32", "int8", "uint8", "int16", "uint16", "int32", "uint32",
                                 "int64", "uint64", "bool")}


def cast_scalar(interp, st, dt, v):
    name = dt.dtype_name
    if isinstance(v, (Arr, CArr)):
        return astype(interp, st, v, name)
    v = interp.use(st, v)
    if interp.concrete:
        return concrete_cast(name, v)
    if name in FLOAT_DTYPES:
        v = V.num_of_bool(v)
        if is_sym(v) and z3.is_int(v):
            return z3.ToReal(v)
        if interp.narrow is not None and is_sym(v):
            if name == "float64":
                return interp.widen(v)
            if not interp.is_narrow(v) and isinstance(v, z3.ExprRef):
                v = type(v)(v.ast, v.ctx)
                interp.narrow[id(v)] = v
        return v
    if name == "bool":
        return interp.A.truthy(v)
    if V.is_int_valued(v):
        return V.num_of_bool(v)
    return interp.A.trunc(v)


# ---------------------------------------------------------------- elementwise machinery
def _result_dtype(a, b, opname=None):
    da = a.dtype if isinstance(a, (Arr, CArr)) else None
    db = b.dtype if isinstance(b, (Arr, CArr)) else None
    if opname == "Div":
        return "float64"

    def sk(x):
        if isinstance(x, (Arr, CArr)):
            return None
        if isinstance(x, bool):
            return "bool"
        if V.is_int_valued(x):
            return "int64"
        return "float64"
    da = da or sk(a)
    db = db or sk(b)
    order = ["bool", "uint8", "int8", "int16", "uint16", "int32", "uint32", "int64", "uint64", "float32", "float64"]
    if da in order and db in order:
        # numpy: python scalars are weak
        if not isinstance(a, (Arr, CArr)) and isinstance(b, (Arr, CArr)):
            if da == "float64" and not db.startswith("float"):
                return "float64"
            return db if db != "bool" else da
        if not isinstance(b, (Arr, CArr)) and isinstance(a, (Arr, CArr)):
            if db == "float64" and not da.startswith("float"):
                return "float64"
            return da if da != "bool" else db
        r = order[max(order.index(da), order.index(db))]
        if opname in ("Add", "Sub", "Mult", "Pow") and r == "bool":
            r = "int64"
        return r
    return "float64"


def broadcast_shapes(s1, s2):
    out = []
    for a, b in zip(((1,) * (len(s2) - len(s1)) + tuple(s1)), ((1,) * (len(s1) - len(s2)) + tuple(s2))):
        if a == b or b == 1:
            out.append(a)
        elif a == 1:
            out.append(b)
        else:
            raise I().Raised("ValueError", f"operands could not be broadcast together {s1} {s2}")
    return tuple(out)


def _bcast_vals(interp, st, a, shape):
    """Values of array a broadcast to shape (C order)."""
    import itertools
    if a.shape == shape:
        return interp.arr_values(st, a)
    nd = len(shape)
    ashape = (1,) * (nd - a.ndim) + a.shape
    astr = (0,) * (nd - a.ndim) + a.strides
    out = []
    for idx in itertools.product(*[range(s) for s in shape]):
        pos = a.offset + sum((i if ashape[k] != 1 else 0) * astr[k] for k, i in enumerate(idx))
        out.append(interp.read_cell(st, a, pos))
    return out


def elementwise2(interp, st, fn, a, b, dtype=None, opname=None):
    dt = dtype or _result_dtype(a, b, opname)
    if isinstance(a, CArr) or isinstance(b, CArr):
        if isinstance(a, CArr) and isinstance(b, CArr):
            if not a.same_mask(b.mask):
                raise Unsupported("binary op on compacted arrays with different masks")
            return CArr([fn(x, y) for x, y in zip(a.elems, b.elems)], a.mask, dt)
        if isinstance(a, CArr):
            if isinstance(b, Arr):
                if b.size != 1:
                    raise Unsupported("compacted array combined with a plain array")
                b = interp.arr_values(st, b)[0]
            return CArr([fn(x, b) for x in a.elems], a.mask, dt)
        if isinstance(a, Arr):
            if a.size != 1:
                raise Unsupported("compacted array combined with a plain array")
            a = interp.arr_values(st, a)[0]
        return CArr([fn(a, y) for y in b.elems], b.mask, dt)
    if isinstance(a, Arr) and isinstance(b, Arr):
        shape = broadcast_shapes(a.shape, b.shape)
        va, vb = _bcast_vals(interp, st, a, shape), _bcast_vals(interp, st, b, shape)
        cells = [fn(x, y) for x, y in zip(va, vb)]
        return _mk(interp, st, shape, dt, cells)
    if isinstance(a, Arr):
        if isinstance(b, (list, tuple)):
            b = np_array(interp, st, b)
            return elementwise2(interp, st, fn, a, b, dtype, opname)
        cells = [fn(x, b) for x in interp.arr_values(st, a)]
        return _mk(interp, st, a.shape, dt, cells)
    if isinstance(a, (list, tuple)):
        a = np_array(interp, st, a)
        return elementwise2(interp, st, fn, a, b, dtype, opname)
    cells = [fn(a, y) for y in interp.arr_values(st, b)]
    return _mk(interp, st, b.shape, dt, cells)


def _mk(interp, st, shape, dt, cells):
    """New array; cells are cast to the dtype without range obligations for floats/bools."""
    if dt in INT_RANGES and not interp.concrete:
        # array arithmetic keeps the array dtype (NumPy / Numba do not widen array operands): values wrap
        if dt in ("int64", "uint64"):
            return interp.new_array(st, shape, dt, cells=cells)
        return interp.new_array(st, shape, dt, cells=[interp.cast_store(st, dt, c, what="integer array arithmetic") for c in cells])
    if dt == "bool":
        cells = [c if V.is_boolish(c) else interp.A.truthy(c) for c in cells]
        return interp.new_array(st, shape, dt, cells=cells)
    cells = [interp.cast_store(st, dt, c) for c in cells]
    return interp.new_array(st, shape, dt, cells=cells)


def elementwise1(interp, st, fn, a, dtype=None):
    if isinstance(a, CArr):
        return CArr([fn(x) for x in a.elems], a.mask, dtype or a.dtype)
    if isinstance(a, Arr):
        cells = [fn(x) for x in interp.arr_values(st, a)]
        return _mk(interp, st, a.shape, dtype or a.dtype, cells)
    return fn(interp.use(st, a))


def astype(interp, st, a, dtype):
    dtype = norm_dtype(dtype)
    if isinstance(a, CArr):
        return CArr([interp.cast_store(st, dtype, x) for x in a.elems], a.mask, dtype)
    cells = [interp.cast_store(st, dtype, x, what="astype") for x in interp.arr_values(st, a)]
    return interp.new_array(st, a.shape, dtype, cells=cells)


# ---------------------------------------------------------------- compacted arrays
def carr_size(interp, c):
    A = interp.A
    tot = 0
    for m in c.mask:
        tot = A.add(tot, V.num_of_bool(m))
    if is_sym(tot):
        lo = sum(1 for m in c.mask if simp_bool(m) is True)
        hi = sum(1 for m in c.mask if simp_bool(m) is not False)
        interp.int_bounds[tot.get_id()] = (lo, hi)
        interp._alive.append(tot)
    return tot


def carr_ranks(interp, c):
    """rank[j] = number of selected elements before j."""
    A = interp.A
    ranks = []
    acc = 0
    for m in c.mask:
        ranks.append(acc)
        acc = A.add(acc, V.num_of_bool(m))
    return ranks


def carr_get(interp, st, c, k):
    """k-th selected element (k concrete or symbolic); caller guarantees k < size via guard/obligation."""
    A = interp.A
    ranks = carr_ranks(interp, c)
    res = None
    n = len(c.elems)
    for j in range(n - 1, -1, -1):
        if isinstance(k, int) and j < k:
            break
        hit = z_and(A.truthy(c.mask[j]) if not V.is_boolish(c.mask[j]) else c.mask[j], A.cmp("==", ranks[j], k))
        if hit is False:
            continue
        if res is None:
            res = c.elems[j] if hit is True else A.ite(hit, c.elems[j], _zero_like(c.elems[j]))
        else:
            res = A.ite(hit, c.elems[j], res)
    if res is None:
        interp.oblige(st, "index-bounds", False, "index into empty compacted array")
        return 0
    return res


def _zero_like(v):
    return 0


def carr_to_arr(interp, st, c):
    """Materialise if every mask entry is concrete."""
    if all(isinstance(m, bool) for m in c.mask):
        cells = [e for e, m in zip(c.elems, c.mask) if m]
        return interp.new_array(st, (len(cells),), c.dtype, cells=cells)
    return c


def make_compact(interp, st, elems, mask, dtype):
    mask = [simp_bool(m) if V.is_boolish(m) else interp.A.truthy(m) for m in mask]
    mask = [m if isinstance(m, bool) else interp.decide(st, m) for m in mask]
    return carr_to_arr(interp, st, CArr(elems, mask, dtype))


# ---------------------------------------------------------------- indexing
def _norm_index(interp, st, i, n, what="index"):
    """Scalar index -> concrete int or symbolic Int term with bounds obligation."""
    i = interp.use(st, i)
    if isinstance(i, bool):
        i = int(i)
    if isinstance(i, int):
        j = i + n if i < 0 else i
        if not (0 <= j < n):
            interp.oblige(st, "index-bounds", False, f"{what} {i} out of bounds for axis of size {n}")
            if interp.concrete:
                raise I().Raised("IndexError", f"{what} {i} out of bounds for size {n}")
            return None
        return j
    if isinstance(i, Fraction) and i.denominator == 1:
        return _norm_index(interp, st, int(i), n, what)
    if is_sym(i):
        if not z3.is_int(i):
            raise Unsupported("non-integer symbolic index")
        d = interp.decide(st, z3.And(i >= 0, i < n))
        if d is not True:
            interp.oblige(st, "index-bounds", z3.And(i >= -n, i < n), f"symbolic {what} within axis of size {n}")
            d2 = interp.decide(st, i >= 0)
            if d2 is not True:
                i = z3.If(i < 0, i + n, i)
        return i
    raise I().Raised("IndexError", f"bad index {i!r}")


def _is_mask(idx):
    return isinstance(idx, (Arr, CArr)) and idx.dtype == "bool"


def getitem(interp, st, base, idx):
    In = I()
    base = interp.use(st, base)
    if isinstance(base, In.Choice):
        return In.Choice(base.cond, getitem(interp, st, base.a, idx), getitem(interp, st, base.b, idx))
    if isinstance(base, (list, tuple, str)):
        if isinstance(idx, In.SliceV):
            return base[slice(idx.lo, idx.hi, idx.step)]
        n = len(base)
        j = _norm_index(interp, st, idx, n)
        if j is None:
            return 0
        if isinstance(j, int):
            return base[j]
        res = base[n - 1]
        for k in range(n - 2, -1, -1):
            res = interp.merge_value(st, j == k, base[k], res, st, st)
        return res
    if isinstance(base, dict):
        return base[idx]
    if isinstance(base, CArr):
        if isinstance(idx, In.SliceV):
            raise Unsupported("slice of compacted array")
        if isinstance(idx, int) and idx < 0:
            raise Unsupported("negative index into compacted array")
        size = carr_size(interp, base)
        interp.oblige(st, "index-bounds", interp.A.cmp("<", idx, size), "index into compacted array")
        return carr_get(interp, st, base, interp.use(st, idx))
    if hasattr(base, "pysym_getitem"):
        return base.pysym_getitem(interp, st, idx)
    if not isinstance(base, Arr):
        raise Unsupported(f"subscript of {type(base).__name__}")
    a = base
    # boolean mask
    if _is_mask(idx):
        if isinstance(idx, CArr) or idx.shape != a.shape or a.ndim != 1:
            raise Unsupported("boolean mask indexing beyond 1-d same-shape")
        return make_compact(interp, st, interp.arr_values(st, a), interp.arr_values(st, idx), a.dtype)
    if isinstance(idx, Arr) and idx.dtype in INT_RANGES:
        ivals = interp.arr_values(st, idx)
        cells = [getitem(interp, st, a, iv) for iv in ivals]
        if a.ndim != 1:
            raise Unsupported("fancy indexing on nd array")
        return interp.new_array(st, idx.shape, a.dtype, cells=cells)
    if not isinstance(idx, tuple):
        idx = (idx,)
    if any(x is Ellipsis for x in idx):
        k = idx.index(Ellipsis)
        fill = a.ndim - (len(idx) - 1)
        idx = idx[:k] + (In.SliceV(None, None, None),) * fill + idx[k + 1:]
    if len(idx) > a.ndim:
        raise In.Raised("IndexError", "too many indices")
    idx = idx + (In.SliceV(None, None, None),) * (a.ndim - len(idx))
    offset = a.offset
    shape, strides = [], []
    sym_axes = []
    oob = False
    for ax, ix in enumerate(idx):
        n = a.shape[ax]
        if isinstance(ix, In.SliceV):
            lo, hi, stp = (interp.use(st, x) for x in (ix.lo, ix.hi, ix.step))
            start, stop, step = slice_indices(slice(lo, hi, stp), n)
            cnt = len(range(start, stop, step))
            offset += start * a.strides[ax]
            shape.append(cnt)
            strides.append(step * a.strides[ax])
        else:
            j = _norm_index(interp, st, ix, n)
            if j is None:
                oob = True
                j = 0
            if isinstance(j, int):
                offset += j * a.strides[ax]
            else:
                sym_axes.append((ax, j, n))
    if oob:
        # concretely out of bounds: the failed obligation is recorded; the value read is arbitrary
        if not shape:
            return interp.A.fresh("oob_read", "real") if not interp.concrete else 0
        return interp.new_array(st, shape, a.dtype, fill=0)
    if not sym_axes:
        view = Arr(a.bufid, offset, shape, strides, a.dtype, a.readonly)
        if not shape:
            return interp.read_cell(st, view, offset)
        return view
    # symbolic index on one or more axes: ite chain over candidates (copy semantics for sub-arrays)
    import itertools
    cands = list(itertools.product(*[range(n) for _, _, n in sym_axes]))
    res = None
    for cand in reversed(cands):
        off = offset + sum(k * a.strides[ax] for k, (ax, _, _) in zip(cand, sym_axes))
        view = Arr(a.bufid, off, shape, strides, a.dtype)
        val = interp.read_cell(st, view, off) if not shape else interp.arr_values(st, view)
        if res is None:
            res = val
        else:
            cond = z_and(*[j == k for k, (_, j, _) in zip(cand, sym_axes)])
            res = interp.A.ite(cond, val, res) if not shape else [interp.A.ite(cond, x, y) for x, y in zip(val, res)]
    if not shape:
        return res
    return interp.new_array(st, shape, a.dtype, cells=res)


def setitem(interp, st, base, idx, v):
    In = I()
    if isinstance(base, list):
        j = _norm_index(interp, st, idx, len(base))
        if isinstance(j, int):
            base[j] = v
            return
        raise Unsupported("symbolic index store into python list")
    if isinstance(base, dict):
        base[idx] = v
        return
    if hasattr(base, "pysym_setitem"):
        return base.pysym_setitem(interp, st, idx, v)
    if not isinstance(base, Arr):
        raise Unsupported(f"item assignment on {type(base).__name__}")
    a = base
    v = interp.use(st, v)
    if _is_mask(idx):
        if isinstance(idx, CArr) or idx.shape != a.shape or a.ndim != 1:
            raise Unsupported("boolean mask assignment beyond 1-d same-shape")
        mvals = interp.arr_values(st, idx)
        pos = a.positions()
        if isinstance(v, CArr):
            if v.same_mask(mvals):
                src = v.elems
            else:
                # general scatter: k-th selected target gets k-th source element
                tgt = CArr(list(range(len(mvals))), mvals, "int64")
                ranks = carr_ranks(interp, tgt)
                interp.oblige(st, "shape-mismatch", interp.A.cmp("==", carr_size(interp, tgt), carr_size(interp, v)),
                              "boolean-mask assignment of a different-length array")
                src = [carr_get(interp, st, v, r) for r in ranks]
        elif isinstance(v, Arr):
            vv = interp.arr_values(st, v)
            if all(isinstance(m, bool) for m in mvals):
                sel = [i for i, m in enumerate(mvals) if m]
                if len(vv) == 1:
                    vv = vv * len(sel)
                if len(vv) != len(sel):
                    raise In.Raised("ValueError", "mask assignment size mismatch")
                src = [None] * len(mvals)
                for i, x in zip(sel, vv):
                    src[i] = x
            else:
                tgt = CArr(list(range(len(mvals))), mvals, "int64")
                ranks = carr_ranks(interp, tgt)
                interp.oblige(st, "shape-mismatch", interp.A.cmp("==", carr_size(interp, tgt), len(vv)),
                              "boolean-mask assignment of a different-length array")
                src = [getitem(interp, st, vv, r) if is_sym(r) else (vv[r] if r < len(vv) else 0) for r in ranks]
        else:
            src = [v] * len(mvals)
        for p, m, x in zip(pos, mvals, src):
            m = simp_bool(m) if V.is_boolish(m) else interp.A.truthy(m)
            if m is False:
                continue
            new = interp.cast_store(st, a.dtype, x)
            if a.readonly:
                interp.oblige(st, "readonly-write", False, "write to read-only input")
            if m is True:
                st.wbuf(a.bufid, p)[p] = new
            else:
                old = st.heap[a.bufid][p]
                st.wbuf(a.bufid, p)[p] = interp.A.ite(m, new, old)
        return
    if isinstance(idx, Arr) and idx.dtype in INT_RANGES and a.ndim == 1:
        ivals = interp.arr_values(st, idx)
        if isinstance(v, CArr):
            v = carr_to_arr(interp, st, v)
        if isinstance(v, Arr):
            src = interp.arr_values(st, v)
            if len(src) == 1:
                src = src * len(ivals)
            if len(src) != len(ivals):
                raise In.Raised("ValueError", "fancy assignment size mismatch")
        else:
            src = [v] * len(ivals)
        for iv, x in zip(ivals, src):
            setitem(interp, st, a, iv, x)
        return
    if not isinstance(idx, tuple):
        idx = (idx,)
    if any(x is Ellipsis for x in idx):
        k = idx.index(Ellipsis)
        fill = a.ndim - (len(idx) - 1)
        idx = idx[:k] + (In.SliceV(None, None, None),) * fill + idx[k + 1:]
    idx = idx + (In.SliceV(None, None, None),) * (a.ndim - len(idx))
    offset = a.offset
    shape, strides = [], []
    sym_axes = []
    for ax, ix in enumerate(idx):
        n = a.shape[ax]
        if isinstance(ix, In.SliceV):
            lo, hi, stp = (interp.use(st, x) for x in (ix.lo, ix.hi, ix.step))
            start, stop, step = slice_indices(slice(lo, hi, stp), n)
            offset += start * a.strides[ax]
            shape.append(len(range(start, stop, step)))
            strides.append(step * a.strides[ax])
        else:
            j = _norm_index(interp, st, ix, n)
            if j is None:
                return
            if isinstance(j, int):
                offset += j * a.strides[ax]
            else:
                sym_axes.append((ax, j, n))
    # source values
    view0 = Arr(a.bufid, offset, shape, strides, a.dtype, a.readonly)
    count = view0.size
    if isinstance(v, CArr):
        v = carr_to_arr(interp, st, v)
        if isinstance(v, CArr):
            raise Unsupported("assignment of a symbolic-length array to a slice")
    if isinstance(v, Arr):
        if v.shape != tuple(shape):
            tshape = broadcast_shapes(v.shape, tuple(shape))
            if tshape != tuple(shape):
                raise In.Raised("ValueError", f"could not broadcast {v.shape} into {tuple(shape)}")
            src = _bcast_vals(interp, st, v, tuple(shape))
        else:
            src = interp.arr_values(st, v)   # read first: handles overlapping views
    elif isinstance(v, (list, tuple)):
        src = list(v)
        if len(src) != count:
            raise In.Raised("ValueError", "sequence size mismatch")
    else:
        src = [v] * count
    src = [interp.cast_store(st, a.dtype, x) for x in src]
    if a.readonly:
        interp.oblige(st, "readonly-write", False, "write to read-only input")
    if not sym_axes:
        for p, x in zip(view0.positions(), src):
            st.wbuf(a.bufid, p)[p] = x
        return
    import itertools
    for cand in itertools.product(*[range(n) for _, _, n in sym_axes]):
        off = offset + sum(k * a.strides[ax] for k, (ax, _, _) in zip(cand, sym_axes))
        cond = z_and(*[j == k for k, (_, j, _) in zip(cand, sym_axes)])
        view = Arr(a.bufid, off, shape, strides, a.dtype)
        for p, x in zip(view.positions(), src):
            old = st.heap[a.bufid][p]
            st.wbuf(a.bufid, p)[p] = interp.A.ite(cond, x, old)


# ---------------------------------------------------------------- attributes
def array_attr(interp, st, a, attr):
    if attr == "shape":
        if isinstance(a, CArr):
            return (carr_size(interp, a),)
        return a.shape
    if attr == "size":
        if isinstance(a, CArr):
            return carr_size(interp, a)
        return a.size
    if attr == "ndim":
        return a.ndim
    if attr == "dtype":
        return DTYPES.get(a.dtype, DType(a.dtype))
    if attr == "T":
        if isinstance(a, Arr):
            return Arr(a.bufid, a.offset, a.shape[::-1], a.strides[::-1], a.dtype, a.readonly)
    if attr == "data" or attr == "values":
        return a
    if attr in ARRAY_METHODS:
        fn = ARRAY_METHODS[attr]

        return NativeBound(fn, a)
    raise Unsupported(f"array attribute {attr}")


class NativeBound:
    pysym_native = True

    def __init__(self, fn, selfv):
        self.fn, self.selfv = fn, selfv

    def __call__(self, interp, st, *args, **kw):
        return self.fn(interp, st, self.selfv, *args, **kw)


def native(fn):
    fn.pysym_native = True
    return fn


def module_attr(interp, modname, attr):
    full = f"{modname}.{attr}"
    full = ALIASES.get(full, full)
    if full in CONSTANTS:
        if isinstance(CONSTANTS[full], (list, tuple, DType)):
            return CONSTANTS[full]
        return interp.A.conc(CONSTANTS[full])
    In = I()
    if full in LIB or full.rsplit(".", 1)[-1] in DTYPES and full.split(".")[0] in ("numpy", "numba"):
        return In.LibRef(full)
    return In.LibRef(full)


def native_method(interp, st, base, attr):
    if isinstance(base, list) and attr == "append":
        @native
        def app(interp, st, v):
            base.append(v)
        return app
    if isinstance(base, str):
        return getattr(base, attr)
    if isinstance(base, dict):
        return getattr(base, attr)
    raise Unsupported(f"method {attr} of {type(base).__name__}")


# ---------------------------------------------------------------- numpy-ish functions
def np_array(interp, st, obj, dtype=None, **kw):
    if "copy" in kw:
        kw.pop("copy")
    dtype = norm_dtype(dtype) if dtype is not None else None
    if isinstance(obj, Arr):
        cells = interp.arr_values(st, obj)
        dt = dtype or obj.dtype
        return interp.new_array(st, obj.shape, dt, cells=[interp.cast_store(st, dt, c) for c in cells])
    if isinstance(obj, CArr):
        return obj
    if isinstance(obj, (list, tuple)):
        if obj and isinstance(obj[0], (list, tuple)):
            rows = [list(r) for r in obj]
            ncol = len(rows[0])
            if any(len(r) != ncol for r in rows):
                raise Unsupported("ragged nested list")
            flat = [x for r in rows for x in r]
            shape = (len(rows), ncol)
        elif obj and isinstance(obj[0], Arr):
            rows = [interp.arr_values(st, r) for r in obj]
            flat = [x for r in rows for x in r]
            shape = (len(rows),) + obj[0].shape
        else:
            flat = list(obj)
            shape = (len(flat),)
        flat = [interp.use(st, x) for x in flat]
        if dtype is None:
            if flat and all(isinstance(x, str) for x in flat):
                dtype = "str"
            elif flat and all(V.is_boolish(x) for x in flat):
                dtype = "bool"
            elif all(V.is_int_valued(x) for x in flat):
                dtype = "int64"
            else:
                dtype = "float64"
        return interp.new_array(st, shape, dtype, cells=[interp.cast_store(st, dtype, c) for c in flat])
    # scalar
    dt = dtype or ("int64" if V.is_int_valued(obj) else "float64")
    return interp.new_array(st, (), dt, cells=[interp.cast_store(st, dt, interp.use(st, obj))])


def _shape_arg(interp, st, shape):
    if isinstance(shape, (tuple, list)):
        return tuple(interp.use(st, s) for s in shape)
    return (interp.use(st, shape),)


@native
def np_zeros(interp, st, shape, dtype=None, **kw):
    return interp.new_array(st, _shape_arg(interp, st, shape), norm_dtype(dtype),
                            fill=(False if norm_dtype(dtype) == "bool" else (0.0 if interp.concrete and norm_dtype(dtype) in FLOAT_DTYPES else 0)))


@native
def np_ones(interp, st, shape, dtype=None, **kw):
    return interp.new_array(st, _shape_arg(interp, st, shape), norm_dtype(dtype),
                            fill=(True if norm_dtype(dtype) == "bool" else 1))


@native
def np_empty(interp, st, shape, dtype=None, **kw):
    shape = _shape_arg(interp, st, shape)
    dt = norm_dtype(dtype)
    n = 1
    for s in shape:
        n *= s
    cells = [Partial(interp.A.fresh("uninit", "int" if dt in INT_RANGES else "real") if not interp.concrete else 0,
                     False, "uninitialised array element") for _ in range(n)]
    return interp.new_array(st, shape, dt, cells=cells)


@native
def np_empty_like(interp, st, a, dtype=None, **kw):
    return np_empty(interp, st, a.shape, dtype if dtype is not None else a.dtype)


@native
def np_full(interp, st, shape, fill_value, dtype=None, **kw):
    shape = _shape_arg(interp, st, shape)
    dt = norm_dtype(dtype) if dtype is not None else ("int64" if V.is_int_valued(fill_value) else "float64")
    return interp.new_array(st, shape, dt, fill=interp.cast_store(st, dt, interp.use(st, fill_value)))


@native
def np_full_like(interp, st, a, fill_value, dtype=None, **kw):
    dt = norm_dtype(dtype) if dtype is not None else a.dtype
    if isinstance(a, CArr):
        f = interp.cast_store(st, dt, interp.use(st, fill_value))
        return CArr([f] * len(a.elems), a.mask, dt)
    return interp.new_array(st, a.shape, dt, fill=interp.cast_store(st, dt, interp.use(st, fill_value)))


@native
def np_zeros_like(interp, st, a, dtype=None, **kw):
    return np_full_like(interp, st, a, 0, dtype)


@native
def np_ones_like(interp, st, a, dtype=None, **kw):
    return np_full_like(interp, st, a, 1, dtype)


@native
def np_arange(interp, st, *args, dtype=None, **kw):
    import numpy as np
    vals = [interp.use(st, a) for a in args]
    if any(is_sym(v) for v in vals):
        raise Unsupported("np.arange with symbolic arguments")
    fvals = [float(v) if not isinstance(v, int) else v for v in vals]
    res = np.arange(*fvals, dtype=(norm_dtype(dtype) if dtype is not None else None))
    dt = str(res.dtype)
    cells = [interp.A.conc(x.item()) for x in res]
    return interp.new_array(st, res.shape, dt, cells=cells)


def _copy(interp, st, a, *args, **kw):
    if isinstance(a, CArr):
        return a
    return interp.new_array(st, a.shape, a.dtype, cells=interp.arr_cells(st, a))


def _flatten(interp, st, a, *args, **kw):
    if isinstance(a, CArr):
        return a
    return interp.new_array(st, (a.size,), a.dtype, cells=interp.arr_cells(st, a))


def _ravel(interp, st, a, *args, **kw):
    return _flatten(interp, st, a)


def _reshape(interp, st, a, *shape, **kw):
    if len(shape) == 1 and isinstance(shape[0], (tuple, list)):
        shape = tuple(shape[0])
    cells = interp.arr_cells(st, a)
    shape = list(shape)
    if -1 in shape:
        k = shape.index(-1)
        other = 1
        for i, s in enumerate(shape):
            if i != k:
                other *= s
        shape[k] = len(cells) // other
    return interp.new_array(st, tuple(shape), a.dtype, cells=cells)


def _values_of(interp, st, a):
    if isinstance(a, Arr):
        return interp.arr_values(st, a), None
    if isinstance(a, CArr):
        return a.elems, a.mask
    if isinstance(a, (list, tuple)):
        return [interp.use(st, x) for x in a], None
    return [interp.use(st, a)], None


def _sum(interp, st, a, axis=None, **kw):
    if axis is not None and isinstance(a, Arr) and a.ndim > 1:
        raise Unsupported("sum with axis")
    vals, mask = _values_of(interp, st, a)
    A = interp.A
    tot = 0.0 if interp.concrete and getattr(a, "dtype", "") in FLOAT_DTYPES else 0
    single = getattr(a, "dtype", "") == "float32"
    if interp.concrete and single:
        import numpy as np
        acc = np.float32(0.0)
        for i, x in enumerate(vals):
            if mask is None or mask[i]:
                acc = np.float32(acc + np.float32(x))
        return float(acc)
    for i, x in enumerate(vals):
        x = V.num_of_bool(x)
        if mask is not None:
            x = A.ite(mask[i], x, 0) if not isinstance(mask[i], bool) else (x if mask[i] else 0)
        first = isinstance(tot, (int, float)) and not isinstance(tot, bool) and tot == 0
        tot = interp.scalar_binop(st, "Add", tot, x)
        if single and interp.narrow is not None and not interp.concrete and not first and is_sym(tot):
            # the sum of a float32 array is accumulated in single precision
            tot = interp.narrow_op(st, "Add", tot, x, tot)
    return tot


def _any(interp, st, a, **kw):
    vals, mask = _values_of(interp, st, a)
    out = []
    for i, x in enumerate(vals):
        t = interp.A.truthy(x)
        if mask is not None:
            t = z_and(mask[i], t)
        out.append(t)
    return z_or(*out)


def _all(interp, st, a, **kw):
    vals, mask = _values_of(interp, st, a)
    out = []
    for i, x in enumerate(vals):
        t = interp.A.truthy(x)
        if mask is not None:
            t = z_or(z_not(mask[i]), t)
        out.append(t)
    return z_and(*out)


def _mean(interp, st, a, **kw):
    s = _sum(interp, st, a)
    n = a.size if isinstance(a, Arr) else carr_size(interp, a)
    return interp.scalar_binop(st, "Div", s, n)


def _astype(interp, st, a, dtype, **kw):
    return astype(interp, st, a, dtype)


def _sort_inplace(interp, st, a, **kw):
    vals = interp.arr_values(st, a)
    if any(is_sym(v) for v in vals):
        srt = sorted_terms(interp, st, vals)
    else:
        srt = sorted(vals)
    for p, x in zip(a.positions(), srt):
        st.wbuf(a.bufid, p)[p] = x


def _item(interp, st, a, *args):
    return interp.arr_values(st, a)[0]


def _tolist(interp, st, a):
    if a.ndim == 1:
        return interp.arr_values(st, a)
    return [_tolist(interp, st, getitem(interp, st, a, i)) for i in range(a.shape[0])]


def _min(interp, st, a, **kw):
    vals, mask = _values_of(interp, st, a)
    if mask is not None:
        raise Unsupported("min of compacted array")
    r = vals[0]
    for x in vals[1:]:
        r = interp.A.minimum(r, x)
    return r


def _max(interp, st, a, **kw):
    vals, mask = _values_of(interp, st, a)
    if mask is not None:
        raise Unsupported("max of compacted array")
    r = vals[0]
    for x in vals[1:]:
        r = interp.A.maximum(r, x)
    return r


def _masked_extreme(interp, st, a, op):
    vals, mask = _values_of(interp, st, a)
    items = [(v, True if mask is None else simp_bool(mask[i])) for i, v in enumerate(vals)]
    items = [(v, m) for v, m in items if m is not False]
    sure = [v for v, m in items if m is True]
    if not sure:
        if not items:
            raise I().Raised("ValueError", "zero-size array to reduction operation")
        raise Unsupported("max / min of a compacted array without a certainly present element")
    r = sure[0]
    for v, m in items:
        cand = op(r, v)
        r = cand if m is True else interp.A.ite(m, cand, r)
    return r


@native
def np_ptp(interp, st, a, **kw):
    return interp.A.sub(_masked_extreme(interp, st, a, interp.A.maximum), _masked_extreme(interp, st, a, interp.A.minimum))


def _argsort_m(interp, st, a, *args, **kw):
    return np_argsort(interp, st, a, *args, **kw)


def _searchsorted_m(interp, st, a, v, side="left", **kw):
    return np_searchsorted(interp, st, a, v, side)


def _sort_any(interp, st, a, **kw):
    if isinstance(a, CArr):
        return None
    vals = interp.arr_values(st, a)
    if any(is_sym(v) for v in vals) and interp.facts is not None:
        srt = try_concrete_order(interp, st, vals)
        if srt is not None and len(srt) == len(vals):
            for p, x in zip(a.positions(), srt):
                st.wbuf(a.bufid, p)[p] = x
            return None
    return _sort_inplace(interp, st, a)


ARRAY_METHODS = {
    "copy": _copy, "flatten": _flatten, "ravel": _ravel, "reshape": _reshape, "sum": _sum, "any": _any, "all": _all,
    "mean": _mean, "astype": _astype, "sort": _sort_any, "searchsorted": _searchsorted_m, "argsort": _argsort_m, "item": _item, "tolist": _tolist, "min": _min, "max": _max,
}


# ---- order statistics / sorting ------------------------------------------------
def order_stat(interp, st, vals, k, mask=None):
    """k-th smallest (1-based, k concrete or symbolic) of vals (restricted to mask) as a fresh constrained var.

    The defining constraints (v is one of the values, #{x < v} < k <= #{x <= v}) determine v uniquely; they
    are added as lemmas, guarded by 1 <= k <= count.
    """
    A = interp.A
    if not any(is_sym(x) for x in vals) and mask is None and isinstance(k, int):
        return sorted(vals)[k - 1]
    allint = all(V.is_int_valued(x) for x in vals)
    v = A.fresh("ostat", "int" if allint else "real")
    lt, le, isin = 0, 0, []
    for i, x in enumerate(vals):
        m = True if mask is None else mask[i]
        lt = A.add(lt, V.num_of_bool(z_and(m, A.cmp("<", x, v))))
        le = A.add(le, V.num_of_bool(z_and(m, A.cmp("<=", x, v))))
        isin.append(z_and(m, A.cmp("==", x, v)))
    cnt = len(vals) if mask is None else carr_size(interp, CArr(vals, mask, "float64"))
    pre = z_and(A.cmp(">=", k, 1), A.cmp("<=", k, cnt))
    fact = V.z_implies(pre, z_and(z_or(*isin), A.cmp("<", lt, k), A.cmp("<=", k, le)))
    A.lemma(("ostat", v.get_id()), V.to_z3(fact))
    return v


def sorted_terms(interp, st, vals):
    return [order_stat(interp, st, vals, k + 1) for k in range(len(vals))]


def median_of(interp, st, vals, mask=None):
    A = interp.A
    if interp.concrete:
        import numpy as np
        return float(np.median(np.array(vals, dtype=float)))
    if mask is None:
        n = len(vals)
        if n == 0:
            return V.NAN
        if n % 2 == 1:
            return order_stat(interp, st, vals, n // 2 + 1)
        a = order_stat(interp, st, vals, n // 2)
        b = order_stat(interp, st, vals, n // 2 + 1)
        return A.div(A.add(a, b), 2)
    cnt = carr_size(interp, CArr(vals, mask, "float64"))
    if not is_sym(cnt):
        sel = [x for x, m in zip(vals, mask) if m is True]
        return median_of(interp, st, sel)
    interp.oblige(st, "empty-median", A.cmp(">", cnt, 0), "median of an empty selection")
    half = cnt / 2  # z3 int div
    odd = (cnt % 2) == 1
    a = order_stat(interp, st, vals, z3.If(odd, half + 1, half), mask)
    b = order_stat(interp, st, vals, half + 1, mask)
    return A.ite(odd, a, A.div(A.add(a, b), 2))


@native
def np_median(interp, st, a, **kw):
    vals, mask = _values_of(interp, st, a)
    if any(V.is_nonfinite(x) for x in vals):
        return V.NAN
    return median_of(interp, st, vals, mask)


@native
def np_nanmedian(interp, st, a, **kw):
    vals, mask = _values_of(interp, st, a)
    if any(V.is_nonfinite(x) for x in vals):
        vals2 = [x for x in vals if not (isinstance(x, float) and math.isnan(x))]
        if mask is not None:
            raise Unsupported("nanmedian with nan in compacted array")
        vals = vals2
    return median_of(interp, st, vals, mask)


def try_concrete_order(interp, st, vals):
    """Sort symbolic values with comparisons decided by the harness facts; None if some comparison is open."""
    out = []
    for v in vals:
        placed = False
        for k in range(len(out)):
            eqc = interp.decide(st, interp.A.cmp("==", v, out[k]))
            if eqc is True:
                placed = True
                break
            lt = interp.decide(st, interp.A.cmp("<", v, out[k]))
            if lt is True:
                out.insert(k, v)
                placed = True
                break
            if lt is not False or eqc is not False:
                return None
        if not placed:
            out.append(v)
    return out


@native
def pd_unique(interp, st, a, **kw):
    """pandas.unique: distinct values in order of first appearance."""
    vals, mask = _values_of(interp, st, a)
    out = []
    for v in vals:
        dup = False
        for u in out:
            e = interp.decide(st, interp.A.cmp("==", v, u)) if (is_sym(v) or is_sym(u)) else (v == u)
            if e is True:
                dup = True
                break
            if e is not False:
                raise Unsupported("pandas.unique with undecided equality")
        if not dup:
            out.append(v)
    return interp.new_array(st, (len(out),), a.dtype if isinstance(a, Arr) else "int64", cells=out)


@native
def np_unique(interp, st, a, **kw):
    vals, mask = _values_of(interp, st, a)
    if mask is not None:
        raise Unsupported("unique of compacted array")
    if any(is_sym(x) for x in vals) and interp.facts is not None:
        srt = try_concrete_order(interp, st, vals)
        if srt is not None:
            return interp.new_array(st, (len(srt),), a.dtype if isinstance(a, Arr) else "float64", cells=srt)
    if not any(is_sym(x) for x in vals):
        u = sorted(set(vals))
        return interp.new_array(st, (len(u),), a.dtype if isinstance(a, Arr) else "float64", cells=u)
    srt = sorted_terms(interp, st, vals)
    m = [True] + [interp.A.cmp("!=", srt[i], srt[i - 1]) for i in range(1, len(srt))]
    return make_compact(interp, st, srt, m, a.dtype if isinstance(a, Arr) else "float64")


@native
def np_sort(interp, st, a, **kw):
    vals, mask = _values_of(interp, st, a)
    if mask is not None:
        raise Unsupported("sort of compacted array")
    srt = sorted_terms(interp, st, vals) if any(is_sym(v) for v in vals) else sorted(vals)
    return interp.new_array(st, (len(srt),), a.dtype if isinstance(a, Arr) else "float64", cells=srt)


@native
def np_argsort(interp, st, a, axis=-1, kind=None, **kw):
    """Indices that sort a 1-d array of concrete keys. NumPy's and Numba's default kind (quicksort) is NOT stable: the order of
    equal keys is unspecified. interp.unstable_ties selects one admissible outcome ("stable" / "reversed"); a harness that sees
    interp.unstable_sort_used repeats its run with the other one."""
    vals, mask = _values_of(interp, st, a)
    if mask is not None or any(is_sym(v) for v in vals):
        raise Unsupported("argsort of symbolic keys")
    stable = kind in ("stable", "mergesort")
    n = len(vals)
    order = sorted(range(n), key=lambda i: vals[i])
    if not stable and len(set(vals)) < n:
        interp.unstable_sort_used = True
        if getattr(interp, "unstable_ties", "stable") == "reversed":
            order = sorted(range(n), key=lambda i: (vals[i], -i))
    return interp.new_array(st, (n,), "int64", cells=order)


@native
def np_where(interp, st, cond, x=None, y=None):
    if x is None:
        if isinstance(cond, CArr):
            raise Unsupported("where on compacted array")
        if cond.ndim != 1:
            raise Unsupported("np.where on nd array")
        mvals = [interp.A.truthy(v) for v in interp.arr_values(st, cond)]
        return (make_compact(interp, st, list(range(len(mvals))), mvals, "int64"),)
    def pick(c, a, b):
        return interp.A.ite(interp.A.truthy(c), a, b)
    tmp = elementwise2(interp, st, lambda c, a: (c, a), cond, x, dtype="object")
    cells = interp.arr_values(st, tmp) if isinstance(tmp, Arr) else [tmp]
    if isinstance(y, Arr):
        yv = _bcast_vals(interp, st, y, tmp.shape)
    else:
        yv = [y] * len(cells)
    out = [pick(c, a, b) for (c, a), b in zip(cells, yv)]
    dt = x.dtype if isinstance(x, Arr) else (y.dtype if isinstance(y, Arr) else "float64")
    return interp.new_array(st, tmp.shape, dt, cells=out)


@native
def np_round(interp, st, a, decimals=0, out=None):
    if decimals != 0:
        raise Unsupported("np.round with decimals != 0")
    A = interp.A
    if isinstance(a, Arr):
        vals = interp.arr_values(st, a)
        if interp.concrete:
            import numpy as np
            r = [float(np.round(x)) for x in vals]
        else:
            r = [A.round_half_even(x) for x in vals]
        if out is None:
            return _mk(interp, st, a.shape, a.dtype, r)
        if out.shape != a.shape:
            raise I().Raised("ValueError", "np.round out shape mismatch")
        for p, x in zip(out.positions(), r):
            interp.write_cell(st, out, p, x)
        return out
    if isinstance(a, CArr):
        return CArr([A.round_half_even(x) for x in a.elems], a.mask, a.dtype)
    a = interp.use(st, a)
    if interp.concrete:
        import numpy as np
        return float(np.round(a))
    r = A.round_half_even(a)
    return r


def _ew1(name, fn_name):
    @native
    def f(interp, st, a, **kw):
        fn = getattr(interp.A, fn_name)
        if interp.concrete:
            import numpy as np
            pyf = getattr(np, name)
            return elementwise1(interp, st, lambda x: float(pyf(x)), a, dtype="float64" if name not in ("abs",) else None)
        return elementwise1(interp, st, fn, a, dtype=None if name == "abs" else "float64")
    return f


@native
def np_isnan(interp, st, a):
    def f(x):
        if is_sym(x):
            return False
        return isinstance(x, float) and math.isnan(x)
    return elementwise1(interp, st, f, a, dtype="bool")


@native
def np_isinf(interp, st, a):
    def f(x):
        if is_sym(x):
            return False
        return isinstance(x, float) and math.isinf(x)
    return elementwise1(interp, st, f, a, dtype="bool")


@native
def np_isfinite(interp, st, a):
    table = getattr(interp, "nonfinite_when", {})

    def f(x, depth=0):
        if is_sym(x):
            c = table.get(x.get_id())
            if c is not None:
                return z_not(c)
            if depth < 30 and z3.is_app_of(x, z3.Z3_OP_ITE):
                return interp.A.ite(x.arg(0), f(x.arg(1), depth + 1), f(x.arg(2), depth + 1))
            return True
        return not V.is_nonfinite(x)
    return elementwise1(interp, st, f, a, dtype="bool")


@native
def np_sum(interp, st, a, **kw):
    return _sum(interp, st, a, **kw)


@native
def np_any(interp, st, a, **kw):
    return _any(interp, st, a)


@native
def np_all(interp, st, a, **kw):
    return _all(interp, st, a)


@native
def np_diff(interp, st, a, axis=-1, **kw):
    if a.ndim == 1:
        v = interp.arr_values(st, a)
        return _mk(interp, st, (len(v) - 1,), a.dtype, [interp.A.sub(v[i + 1], v[i]) for i in range(len(v) - 1)])
    if a.ndim == 2 and axis in (1, -1):
        rows = []
        for r in range(a.shape[0]):
            v = interp.arr_values(st, getitem(interp, st, a, r))
            rows.extend(interp.A.sub(v[i + 1], v[i]) for i in range(len(v) - 1))
        return _mk(interp, st, (a.shape[0], a.shape[1] - 1), a.dtype, rows)
    raise Unsupported("np.diff layout")


@native
def np_searchsorted(interp, st, a, v, side="left", **kw):
    vals = interp.arr_values(st, a) if isinstance(a, Arr) else list(a)
    A = interp.A

    def one(x):
        op = "<" if side == "left" else "<="
        tot = 0
        for y in vals:
            c = interp.scalar_compare(st, op, y, x)
            if is_sym(c):
                c = interp.decide(st, c)
            tot = A.add(tot, V.num_of_bool(c))
        if is_sym(tot):
            interp.int_bounds[tot.get_id()] = (0, len(vals))
            interp._alive.append(tot)
        return tot
    if isinstance(v, Arr):
        return _mk(interp, st, v.shape, "int64", [one(x) for x in interp.arr_values(st, v)])
    return one(interp.use(st, v))


@native
def b_len(interp, st, x):
    if isinstance(x, Arr):
        if x.ndim == 0:
            raise I().Raised("TypeError", "len() of unsized object")
        return x.shape[0]
    if isinstance(x, CArr):
        return carr_size(interp, x)
    if hasattr(x, "pysym_len"):
        return x.pysym_len(interp, st)
    return len(x)


@native
def b_range(interp, st, *args):
    In = I()
    args = [interp.use(st, a) for a in args]
    args = [int(a) if isinstance(a, Fraction) and a.denominator == 1 else a for a in args]
    if all(isinstance(a, int) for a in args):
        return range(*args)
    if len(args) == 1:
        start, stop, step = 0, args[0], 1
    elif len(args) == 2:
        start, stop, step = args[0], args[1], 1
    else:
        start, stop, step = args
    if not isinstance(step, int):
        raise Unsupported("range with symbolic step")
    return In.SymRange(start, stop, step)


@native
def b_abs(interp, st, x):
    if isinstance(x, (Arr, CArr)):
        return elementwise1(interp, st, interp.A.abs, x)
    return interp.A.abs(interp.use(st, x))


@native
def b_min(interp, st, *args):
    if len(args) == 1:
        args = interp.iter_values(st, args[0])
    r = interp.use(st, args[0])
    for x in args[1:]:
        r = interp.A.minimum(r, interp.use(st, x))
    return r


@native
def b_max(interp, st, *args):
    if len(args) == 1:
        args = interp.iter_values(st, args[0])
    r = interp.use(st, args[0])
    for x in args[1:]:
        r = interp.A.maximum(r, interp.use(st, x))
    return r


@native
def b_int(interp, st, x=0):
    x = interp.use(st, x)
    if isinstance(x, str):
        return int(x)
    if hasattr(x, "pysym_int"):
        return x.pysym_int(interp, st)
    if V.is_boolish(x):
        return V.num_of_bool(x)
    if interp.concrete:
        return int(x)
    return interp.A.trunc(x)


@native
def b_float(interp, st, x=0):
    x = interp.use(st, x)
    if isinstance(x, str):
        return interp.A.lit(float(x))
    x = V.num_of_bool(x)
    if interp.concrete:
        return float(x)
    if is_sym(x) and z3.is_int(x):
        return z3.ToReal(x)
    return x


@native
def b_bool(interp, st, x=False):
    return interp.truth(st, x)


@native
def b_round(interp, st, x, nd=None):
    if nd is not None:
        raise Unsupported("round with ndigits")
    x = interp.use(st, x)
    return interp.A.round_half_even(x)


@native
def b_pow(interp, st, a, b):
    return interp.scalar_binop(st, "Pow", a, b)


@native
def b_sum(interp, st, xs, start=0):
    tot = start
    for x in interp.iter_values(st, xs):
        tot = interp.scalar_binop(st, "Add", tot, x)
    return tot


@native
def b_isinstance(interp, st, x, t):
    return I_isinstance(interp, st, x, t)


def I_isinstance(interp, st, x, t):
    In = I()
    if isinstance(t, tuple):
        return z_or(*[I_isinstance(interp, st, x, tt) for tt in t])
    if isinstance(x, In.Choice):
        return interp.A.ite(x.cond, I_isinstance(interp, st, x.a, t), I_isinstance(interp, st, x.b, t))
    if isinstance(t, In.UserClass):
        return isinstance(x, In.Instance) and x.cls is t
    if hasattr(x, "pysym_isinstance"):
        return x.pysym_isinstance(t)
    name = t.pyname if isinstance(t, PyType) else getattr(t, "name", None)
    if name == "str":
        return isinstance(x, str)
    if name == "int":
        return (isinstance(x, int)) or (is_sym(x) and z3.is_int(x))
    if name == "float":
        return isinstance(x, (float, Fraction)) or (is_sym(x) and z3.is_real(x))
    if name == "bool":
        return V.is_boolish(x)
    if name in ("list", "tuple", "dict"):
        return isinstance(x, {"list": list, "tuple": tuple, "dict": dict}[name])
    if name in ("numpy.ndarray",):
        return isinstance(x, (Arr, CArr))
    if name in ("datetime.date", "datetime.datetime"):
        return False
    raise Unsupported(f"isinstance against {t!r}")


class PyType:
    pysym_native = True

    def __init__(self, pyname, ctor):
        self.pyname = pyname
        self.ctor = ctor

    def __call__(self, interp, st, *a, **k):
        return self.ctor(interp, st, *a, **k)


@native
def b_list(interp, st, x=()):
    return list(interp.iter_values(st, x))


@native
def b_tuple(interp, st, x=()):
    return tuple(interp.iter_values(st, x))


@native
def b_str(interp, st, x=""):
    In = I()
    x = interp.use(st, x)
    if isinstance(x, In.Instance) and "__str__" in x.cls.methods:
        return interp.call_function(st, x.cls.methods["__str__"], [x])
    if hasattr(x, "pysym_str"):
        return x.pysym_str(interp, st)
    if is_sym(x):
        return SymStr([("int", x, "")])
    return str(x)


@native
def b_slice(interp, st, *args):
    In = I()
    args = [interp.use(st, a) for a in args]
    if len(args) == 1:
        return In.SliceV(None, args[0], None)
    if len(args) == 2:
        return In.SliceV(args[0], args[1], None)
    return In.SliceV(*args)


@native
def b_enumerate(interp, st, x, start=0):
    return I().Enumerate(x, start)


@native
def b_zip(interp, st, *xs):
    return I().Zip(list(xs))


@native
def b_hash(interp, st, x):
    In = I()
    if isinstance(x, In.Instance) and "__hash__" in x.cls.methods:
        return interp.call_function(st, x.cls.methods["__hash__"], [x])
    if is_sym(x) and z3.is_int(x):
        return HashOf(x)
    return hash(x)


class HashOf:
    """hash(int term): opaque but functional - equal terms hash equal."""

    def __init__(self, t):
        self.t = t

    def pysym_compare(self, interp, st, sym, other, swapped):
        if isinstance(other, HashOf) and sym in ("==", "!="):
            r = interp.A.cmp("==", self.t, other.t)
            return r if sym == "==" else z_not(r)
        raise Unsupported("comparison of hash values")


class SymStr:
    """String made of literal pieces and formatted symbolic integers: [('lit', s) | ('int', term, spec)]."""

    WIDTH = {"04d": (4, 0, 9999), "02d": (2, 0, 99), "": (1, 0, 9), "d": (1, 0, 9), "nopad4": (4, 1000, 9999)}

    def __init__(self, parts):
        self.parts = parts

    def __repr__(self):
        return f"SymStr({self.parts})"

    def layout(self, interp, st):
        """-> list of (start, end, part); fixed-width layout, with the value ranges it relies on as obligations."""
        pos, out = 0, []
        for p in self.parts:
            if p[0] == "lit":
                wdt = len(p[1])
            else:
                spec = p[2]
                if spec not in self.WIDTH:
                    interp.oblige(st, "label-layout", False, f"integer formatted with {spec!r} has no fixed width")
                    raise Unsupported(f"format spec {spec!r} without fixed width")
                wdt, lo, hi = self.WIDTH[spec]
                interp.oblige(st, "label-layout", z3.And(p[1] >= lo, p[1] <= hi), f"value formatted with {spec!r} keeps its width")
            out.append((pos, pos + wdt, p))
            pos += wdt
        return out, pos

    def pysym_getitem(self, interp, st, idx):
        lay, total = self.layout(interp, st)
        In = I()
        if isinstance(idx, In.SliceV):
            a, b, _ = slice(interp.use(st, idx.lo), interp.use(st, idx.hi), None).indices(total)
        else:
            k = interp.use(st, idx)
            k = k + total if k < 0 else k
            a, b = k, k + 1
        parts = [p for (s0, e0, p) in lay if s0 >= a and e0 <= b]
        covered = sum(e0 - s0 for (s0, e0, p) in lay if s0 >= a and e0 <= b)
        if covered != b - a:
            raise Unsupported("slice cuts through a formatted field")
        if len(parts) == 1 and parts[0][0] == "lit":
            return parts[0][1]
        return SymStr(parts)

    def pysym_int(self, interp, st):
        if len(self.parts) == 1 and self.parts[0][0] == "int":
            return self.parts[0][1]
        if all(p[0] == "lit" for p in self.parts):
            return int("".join(p[1] for p in self.parts))
        raise Unsupported("int() of a composite symbolic string")

    def pysym_isinstance(self, t):
        return isinstance(t, PyType) and t.pyname == "str"

    def pysym_len(self, interp, st):
        return self.layout(interp, st)[1]


def format_value(interp, st, v, spec, conversion):
    In = I()
    v = interp.use(st, v)
    if isinstance(v, In.Instance):
        v = b_str(interp, st, v)
    if hasattr(v, "pysym_format"):
        return v.pysym_format(interp, st, spec)
    if is_sym(v):
        return SymStr([("int", v, spec)])
    if isinstance(v, SymStr):
        return v
    if isinstance(v, Fraction):
        v = float(v)
    return format(v, spec)


def join_str(interp, parts):
    if all(isinstance(p, str) for p in parts):
        return "".join(parts)
    out = []
    for p in parts:
        if isinstance(p, str):
            if p:
                out.append(("lit", p))
        else:
            out.extend(p.parts)
    return SymStr(out)


BUILTINS = {
    "len": b_len, "range": b_range, "abs": b_abs, "min": b_min, "max": b_max,
    "int": PyType("int", b_int), "float": PyType("float", b_float), "bool": PyType("bool", b_bool),
    "round": b_round, "pow": b_pow, "sum": b_sum, "isinstance": b_isinstance,
    "list": PyType("list", b_list), "tuple": PyType("tuple", b_tuple), "str": PyType("str", b_str),
    "enumerate": b_enumerate, "slice": b_slice, "zip": b_zip, "hash": b_hash,
    "True": True, "False": False, "None": None, "NotImplemented": None,
    "ValueError": "ValueError", "KeyError": "KeyError", "TypeError": "TypeError",
    "NotImplementedError": "NotImplementedError", "Exception": "Exception",
}


def _math1(fn_name):
    @native
    def f(interp, st, x):
        x = interp.use(st, x)
        if interp.concrete:
            pyf = getattr(math, fn_name)
            try:
                return pyf(x)
            except ValueError:
                if fn_name == "log":
                    return -math.inf if x == 0 else math.nan
                return math.nan
        if fn_name == "log":
            interp.oblige(st, "log-domain", interp.A.cmp(">", x, 0) if not V.is_nonfinite(x) else False, "log of non-positive")
        if fn_name == "sqrt":
            interp.oblige(st, "sqrt-domain", interp.A.cmp(">=", x, 0) if not V.is_nonfinite(x) else False, "sqrt of negative")
        return getattr(interp.A, fn_name)(x)
    return f


_SINGLE_LOOP_INPUTS = ("int8", "uint8", "int16", "uint16", "float32", "bool")


def _np_ew(fn_name):
    @native
    def f(interp, st, a, **kw):
        # NumPy's (and Numba's) type resolution for the float ufuncs: 8 / 16-bit integers and float32 select the SINGLE precision loop
        single = isinstance(a, (Arr, CArr)) and a.dtype in _SINGLE_LOOP_INPUTS
        rdt = "float32" if single else "float64"
        if interp.concrete:
            import numpy as np
            pyf = getattr(np, fn_name)

            def g(x):
                with np.errstate(all="ignore"):
                    return float(pyf(np.float32(x))) if single else float(pyf(np.float64(x)))
            return elementwise1(interp, st, g, a, dtype=rdt)

        def g(x):
            if fn_name == "sqrt":
                interp.oblige(st, "sqrt-domain", interp.A.cmp(">=", x, 0) if not V.is_nonfinite(x) else False, "sqrt of negative")
            if fn_name == "log":
                interp.oblige(st, "log-domain", interp.A.cmp(">", x, 0) if not V.is_nonfinite(x) else False, "log of non-positive")
            r = getattr(interp.A, fn_name)(x)
            if single and interp.narrow is not None and isinstance(r, z3.ExprRef):
                r = type(r)(r.ast, r.ctx)
                interp.narrow[id(r)] = r
            return r
        return elementwise1(interp, st, g, a, dtype=rdt)
    return f


@native
def np_abs(interp, st, a, **kw):
    return elementwise1(interp, st, interp.A.abs, a)


@native
def np_minimum(interp, st, a, b, **kw):
    if isinstance(a, (Arr, CArr)) or isinstance(b, (Arr, CArr)):
        return elementwise2(interp, st, lambda x, y: interp.A.minimum(interp.use(st, x), interp.use(st, y)), a, b)
    return interp.A.minimum(interp.use(st, a), interp.use(st, b))


@native
def np_maximum(interp, st, a, b, **kw):
    if isinstance(a, (Arr, CArr)) or isinstance(b, (Arr, CArr)):
        return elementwise2(interp, st, lambda x, y: interp.A.maximum(interp.use(st, x), interp.use(st, y)), a, b)
    return interp.A.maximum(interp.use(st, a), interp.use(st, b))


@native
def np_log10(interp, st, a, **kw):
    f = interp.A.uf("log10f")

    def g(x):
        if not is_sym(x):
            if V.is_nonfinite(x):
                return x
            if x <= 0:
                return -V.INF if x == 0 else V.NAN
            return interp.A.conc(math.log10(x))
        return f(V.to_real(x))
    return elementwise1(interp, st, g, a, dtype="float64")


@native
def np_array_fn(interp, st, obj, dtype=None, **kw):
    return np_array(interp, st, obj, dtype, **kw)


class PRange:
    """numba.prange(...): iterations may run in any order on any thread (the For handler tags them for the race analysis)."""

    def __init__(self, inner):
        self.inner = inner


@native
def numba_prange(interp, st, *args):
    r = b_range(interp, st, *args)
    if isinstance(r, range):
        return PRange(r)
    return r


def _dtype_caller(name):
    dt = DTYPES[name]

    @native
    def f(interp, st, v=0):
        return cast_scalar(interp, st, dt, v)
    f.dtype_name = name
    f.__name__ = name
    return f


@native
def np_dtype(interp, st, x):
    return DTYPES[norm_dtype(x)]


DATETIME_UNITS = {"D": 24, "h": 1}   # abstract time stamps are integer HOURS: a unit coarser than that floors the value


@native
def np_datetime64(interp, st, v, unit=None):
    v = interp.use(st, v)
    if unit is None or DATETIME_UNITS.get(unit, 1) == 1:
        return v
    g = DATETIME_UNITS[unit]
    if is_sym(v):
        return v - (v % g)
    return v - (v % g)


@native
def np_issubdtype(interp, st, a, b):
    raise Unsupported("np.issubdtype")


# scipy.special contracts: uninterpreted, with the facts a harness asks for added by the harness
def _special(name, arity):
    @native
    def f(interp, st, *args):
        args = [interp.use(st, a) for a in args]
        if interp.concrete:
            import scipy.special as sc
            return float(getattr(sc, name)(*[float(a) for a in args]))
        if any(V.is_nonfinite(a) for a in args):
            return V.NAN
        fn = interp.A.uf("sc_" + name, arity)
        r = fn(*[V.to_real(a) for a in args])
        hook = interp.special_hooks.get(name) if hasattr(interp, "special_hooks") else None
        if hook:
            hook(interp, st, args, r)
        return r
    return f


CONSTANTS = {
    "calendar.mdays": [0, 31, 28, 31, 30, 31, 30, 31, 31, 30, 31, 30, 31],
    "numpy.pi": math.pi, "numpy.nan": math.nan, "numpy.inf": math.inf, "math.pi": math.pi, "math.inf": math.inf,
    "math.nan": math.nan, "numpy.e": math.e,
}
for _n, _d in DTYPES.items():
    pass

ALIASES = {"numpy.float_": "numpy.float64", "numpy.bool_": "numpy.bool", "numba.core.types.boolean": "numba.core.types.bool"}

LIB = {
    "math.log": _math1("log"), "math.sqrt": _math1("sqrt"), "math.erf": _math1("erf"), "math.cos": _math1("cos"),
    "math.pow": b_pow,
    "numpy.zeros": np_zeros, "numpy.ones": np_ones, "numpy.empty": np_empty, "numpy.empty_like": np_empty_like, "numpy.full": np_full,
    "numpy.full_like": np_full_like, "numpy.zeros_like": np_zeros_like, "numpy.ones_like": np_ones_like,
    "numpy.array": np_array_fn, "numpy.asarray": np_array_fn, "numpy.arange": np_arange,
    "numpy.sum": np_sum, "numpy.abs": np_abs, "numpy.round": np_round, "numpy.isnan": np_isnan, "numpy.isinf": np_isinf,
    "numpy.isfinite": np_isfinite, "numpy.cos": _np_ew("cos"), "numpy.sqrt": _np_ew("sqrt"), "numpy.log": _np_ew("log"),
    "numpy.median": np_median, "numpy.nanmedian": np_nanmedian, "numpy.unique": np_unique, "numpy.sort": np_sort, "numpy.where": np_where,
    "numpy.any": np_any, "numpy.all": np_all, "numpy.diff": np_diff, "numpy.searchsorted": np_searchsorted, "numpy.argsort": np_argsort, "numpy.ptp": np_ptp,
    "numpy.log10": np_log10, "numpy.minimum": np_minimum, "numpy.maximum": np_maximum, "numpy.dtype": np_dtype, "numpy.datetime64": np_datetime64, "pandas.unique": pd_unique,
    "numba.prange": numba_prange,
    "scipy.special.digamma": _special("digamma", 1), "scipy.special.gammainc": _special("gammainc", 2),
    "scipy.special.ndtri": _special("ndtri", 1),
}
for _n in DTYPES:
    LIB[f"numpy.{_n}"] = _dtype_caller(_n)
    LIB[f"numba.core.types.{_n}"] = _dtype_caller(_n)
    LIB[f"numba.{_n}"] = _dtype_caller(_n)
LIB["numba.core.types.boolean"] = _dtype_caller("bool")
LIB["numpy.bool_"] = _dtype_caller("bool")


@native
def np_sign(interp, st, a, **kw):
    def f(x):
        x = interp.use(st, x)
        if not is_sym(x):
            return (x > 0) - (x < 0)
        return z3.If(x > 0, 1, z3.If(x < 0, -1, 0))
    return elementwise1(interp, st, f, a)


@native
def np_clip(interp, st, a, lo, hi, **kw):
    def f(x):
        return interp.A.minimum(interp.A.maximum(interp.use(st, x), lo), hi)
    return elementwise1(interp, st, f, a)


@native
def np_mean(interp, st, a, **kw):
    return _mean(interp, st, a)


@native
def np_count_nonzero(interp, st, a, **kw):
    vals, mask = _values_of(interp, st, a)
    tot = 0
    for i, x in enumerate(vals):
        t = interp.A.truthy(x)
        if mask is not None:
            t = z_and(mask[i], t)
        tot = interp.A.add(tot, V.num_of_bool(t))
    return tot


@native
def np_copy(interp, st, a, **kw):
    return _copy(interp, st, a)


@native
def b_divmod(interp, st, a, b):
    return (interp.scalar_binop(st, "FloorDiv", a, b), interp.scalar_binop(st, "Mod", a, b))


@native
def b_any(interp, st, xs):
    return z_or(*[interp.truth(st, x) for x in interp.iter_values(st, xs)])


@native
def b_all(interp, st, xs):
    return z_and(*[interp.truth(st, x) for x in interp.iter_values(st, xs)])


@native
def b_sorted(interp, st, xs, **kw):
    vals = interp.iter_values(st, xs)
    if any(is_sym(v) for v in vals):
        r = try_concrete_order(interp, st, vals) if interp.facts is not None else None
        return r if (r is not None and len(r) == len(vals)) else sorted_terms(interp, st, vals)
    return sorted(vals, reverse=bool(kw.get("reverse")))


BUILTINS.update({"divmod": b_divmod, "any": b_any, "all": b_all, "sorted": b_sorted})
LIB.update({"numpy.sign": np_sign, "numpy.clip": np_clip, "numpy.mean": np_mean, "numpy.count_nonzero": np_count_nonzero, "numpy.copy": np_copy,
            "numpy.absolute": np_abs, "numpy.float_power": b_pow})


def call_lib(interp, st, name, args, kwargs):
    name = ALIASES.get(name, name)
    fn = interp.lib_overrides.get(name) if hasattr(interp, "lib_overrides") else None
    fn = fn or LIB.get(name)
    if fn is None:
        raise Unsupported(f"library function {name} has no stub")
    STUBS_USED.add(name)
    return fn(interp, st, *args, **kwargs)
