"""Read guvectorize / njit decorators of a kernel from its AST (DESIGN 4.2 front end)."""
import ast
import re


def _find_call(node, name):
    for n in ast.walk(node):
        if isinstance(n, ast.Call):
            f = n.func
            fname = f.id if isinstance(f, ast.Name) else (f.attr if isinstance(f, ast.Attribute) else None)
            if fname == name:
                return n
    return None


def _parse_type(txt):
    txt = txt.strip()
    m = re.match(r"([A-Za-z0-9_]+)\s*(\[.*\])?$", txt)
    if not m:
        return (txt, 0)
    base = m.group(1)
    base = {"boolean": "bool"}.get(base, base)
    nd = m.group(2).count(":") if m.group(2) else 0
    return (base, nd)


def gufunc_signatures(fn):
    """-> (list of signatures [(dtype, ndim), ...], layout string, n_inputs) or None."""
    for dec in fn.node.decorator_list:
        call = _find_call(dec, "guvectorize")
        if call is None:
            continue
        sigs_node, layout_node = call.args[0], call.args[1]
        layout = layout_node.value
        sigs = []
        items = sigs_node.elts if isinstance(sigs_node, (ast.List, ast.Tuple)) and not (
            isinstance(sigs_node, ast.Tuple) and sigs_node.elts and not isinstance(sigs_node.elts[0], (ast.Tuple, ast.Constant))
        ) else [sigs_node]
        for it in items:
            if isinstance(it, ast.Constant) and isinstance(it.value, str):
                inner = it.value.strip().strip("()")
                parts = [p for p in re.split(r",\s*(?![^\[]*\])", inner) if p.strip()]
                sigs.append([_parse_type(p) for p in parts])
            elif isinstance(it, ast.Tuple):
                sigs.append([_parse_type(ast.unparse(e)) for e in it.elts])
        n_in = len(layout.split("->")[0].split("),")) if "->" in layout else None
        lhs = layout.split("->")[0]
        n_in = len(re.findall(r"\([^)]*\)", lhs))
        return sigs, layout, n_in
    return None


def gufunc_contiguous_args(fn):
    """-> list of (signature index, argument index, text) for arguments declared with a fixed layout (`[::1]`, `[:, ::1]`, `[::1, :]`).

    Numba trusts such a declaration: the compiled loop ignores the real strides of what it is handed, so a caller passing a strided
    view (a column of a table, every second element, a transposed block) gets the wrong memory read without any error."""
    out = []
    for dec in fn.node.decorator_list:
        call = _find_call(dec, "guvectorize")
        if call is None:
            continue
        sigs_node = call.args[0]
        items = sigs_node.elts if isinstance(sigs_node, (ast.List, ast.Tuple)) else [sigs_node]
        for si, it in enumerate(items):
            if isinstance(it, ast.Constant) and isinstance(it.value, str):
                inner = it.value.strip().strip("()")
                parts = [p for p in re.split(r",\s*(?![^\[]*\])", inner) if p.strip()]
            elif isinstance(it, ast.Tuple):
                parts = [ast.unparse(e) for e in it.elts]
            else:
                parts = [ast.unparse(it)]
            for ai, ptxt in enumerate(parts):
                if "::1" in ptxt.replace(" ", ""):
                    out.append((si, ai, ptxt.strip()))
    return out
