"""Value model and arithmetic for pysym.

Values are either concrete Python objects (bool, int, Fraction, float) or z3
terms (Int / Real / Bool sort).  Floats of the analysed program are interpreted
as exact reals: in symbolic mode every finite float becomes a Fraction; the
only Python floats that survive are the non-finite ones (nan, +-inf), which
are propagated concretely (DESIGN 4.4).

Products / quotients of two non-constant terms are handled by the *policy* of
the Arith object (DESIGN 4.3):
  'exact' : refuse (the harness promised an exact-linear configuration)
  'uf'    : uninterpreted mul/div with ground lemmas, ite-lifting through
            constants
  'poly'  : hand the nonlinear term to z3 (integer polynomial identities)
"""
from __future__ import annotations

import math
from fractions import Fraction

import z3


class Unsupported(Exception):
    """The evaluator met a construct / value it does not model (harness error, exit 3)."""


class NonLinear(Unsupported):
    pass


NAN = float("nan")
INF = float("inf")


def is_sym(v):
    return isinstance(v, z3.ExprRef)


def is_conc_num(v):
    return isinstance(v, (int, Fraction, float)) and not isinstance(v, bool)


def is_nonfinite(v):
    return isinstance(v, float) and (math.isnan(v) or math.isinf(v))


def is_boolish(v):
    return isinstance(v, bool) or (is_sym(v) and z3.is_bool(v))


def is_int_valued(v):
    if isinstance(v, bool):
        return True
    if isinstance(v, int):
        return True
    if is_sym(v):
        return z3.is_int(v)
    return False


def fr(x):
    """Concrete number -> exact value usable in symbolic mode."""
    if isinstance(x, bool):
        return int(x)
    if isinstance(x, int):
        return x
    if isinstance(x, Fraction):
        if x.denominator == 1:
            return int(x.numerator)
        return x
    if isinstance(x, float):
        if math.isnan(x) or math.isinf(x):
            return x
        f = Fraction(x)
        return f
    raise Unsupported(f"fr({type(x)})")


def lit_fraction(text_or_float):
    """Float literal -> Fraction through its shortest decimal repr (0.00001 -> 1/100000)."""
    f = Fraction(repr(float(text_or_float)))
    return f


class ShFrac(Fraction):
    """Concrete value with a float64 shadow: the exact result of the operations so far plus the double the real code holds,
    kept only when that double is not the correctly rounded exact value (1 - 0.9 is 1/10 exactly and 0.09999999999999998 in
    float64).  Comparisons that come out differently on the shadow are reported (Arith.pending_divergence)."""

    def __new__(cls, val, sh):
        obj = Fraction.__new__(cls, val)
        obj.sh = sh
        return obj


def shadow_of(v):
    if isinstance(v, ShFrac):
        return v.sh
    if isinstance(v, bool):
        return float(int(v))
    return float(v)


def to_z3(v):
    if is_sym(v):
        return v
    if isinstance(v, bool):
        return z3.BoolVal(v)
    if isinstance(v, int):
        return z3.IntVal(v)
    if isinstance(v, Fraction):
        return z3.RealVal(v)
    if isinstance(v, float):
        if is_nonfinite(v):
            raise Unsupported("non-finite value reached the solver")
        return z3.RealVal(Fraction(v))
    raise Unsupported(f"to_z3({type(v)})")


def to_real(v, _depth=0):
    """Real view of a value. ToReal is pushed through integer sums / differences / constant multiples / ite, so that the int and
    the float view of the same data produce the same terms (ToReal(a + b) is written ToReal(a) + ToReal(b))."""
    t = to_z3(v)
    if z3.is_int(t):
        if _depth < 40 and z3.is_app(t):
            k = t.decl().kind()
            if z3.is_int_value(t):
                return z3.RealVal(t.as_long())
            if k == z3.Z3_OP_ADD:
                return z3.Sum([to_real(c, _depth + 1) for c in t.children()])
            if k == z3.Z3_OP_SUB and t.num_args() == 2:
                return to_real(t.arg(0), _depth + 1) - to_real(t.arg(1), _depth + 1)
            if k == z3.Z3_OP_UMINUS:
                return -to_real(t.arg(0), _depth + 1)
            if k == z3.Z3_OP_MUL and t.num_args() == 2 and (z3.is_int_value(t.arg(0)) or z3.is_int_value(t.arg(1))):
                return to_real(t.arg(0), _depth + 1) * to_real(t.arg(1), _depth + 1)
            if k == z3.Z3_OP_ITE:
                return z3.If(t.arg(0), to_real(t.arg(1), _depth + 1), to_real(t.arg(2), _depth + 1))
        return z3.ToReal(t)
    if z3.is_bool(t):
        return z3.If(t, z3.RealVal(1), z3.RealVal(0))
    return t


def num_of_bool(v):
    """bool-ish -> 0/1 number (concrete or term)."""
    if isinstance(v, bool):
        return int(v)
    if is_sym(v) and z3.is_bool(v):
        return z3.If(v, z3.IntVal(1), z3.IntVal(0))
    return v


_simpl_cache = {}


def simp_bool(b):
    """Cheap simplification of a boolean term to a Python bool when possible."""
    if isinstance(b, bool):
        return b
    if z3.is_true(b):
        return True
    if z3.is_false(b):
        return False
    return b


def z_and(*xs):
    out = []
    for x in xs:
        x = simp_bool(x)
        if x is True:
            continue
        if x is False:
            return False
        out.append(x)
    if not out:
        return True
    if len(out) == 1:
        return out[0]
    return z3.And(*out)


def z_or(*xs):
    out = []
    for x in xs:
        x = simp_bool(x)
        if x is False:
            continue
        if x is True:
            return True
        out.append(x)
    if not out:
        return False
    if len(out) == 1:
        return out[0]
    return z3.Or(*out)


def z_not(x):
    x = simp_bool(x)
    if isinstance(x, bool):
        return not x
    if z3.is_not(x):
        return x.arg(0)
    return z3.Not(x)


def z_implies(a, b):
    return z_or(z_not(a), b)


def same(a, b):
    """Syntactic identity of two values."""
    if a is b:
        return True
    if is_sym(a) and is_sym(b):
        return a.eq(b)
    if is_sym(a) or is_sym(b):
        return False
    if isinstance(a, float) and isinstance(b, float) and math.isnan(a) and math.isnan(b):
        return True
    try:
        return type(a) == type(b) and a == b or (is_conc_num(a) and is_conc_num(b) and a == b)
    except Exception:
        return False


class Partial:
    """A value that is only defined (assigned / written) under `defined`."""

    __slots__ = ("value", "defined", "what")

    def __init__(self, value, defined, what="value"):
        self.value = value
        self.defined = defined
        self.what = what

    def __repr__(self):
        return f"Partial({self.value!r}, {self.defined!r})"


class Ratio:
    """num / (den * sqrt(rad)) - closed under * and / ; produced by sqrt / x**-0.5 when Arith.ratio_mode is on."""

    __slots__ = ("num", "den", "rad")

    def __init__(self, num, den, rad):
        self.num, self.den, self.rad = num, den, rad

    def __repr__(self):
        return f"Ratio({self.num}, {self.den}, sqrt({self.rad}))"


class Arith:
    """Arithmetic over mixed concrete / symbolic values."""

    def __init__(self, policy="uf", concrete=False):
        self.policy = policy
        self.concrete = concrete  # concrete mode: plain Python floats, no terms
        self.lemmas = []          # ground facts about uninterpreted applications
        self._lemma_keys = set()
        self.uf_apps = 0
        R = z3.RealSort()
        self.f_mul = z3.Function("mulf", R, R, R)
        self.f_div = z3.Function("divf", R, R, R)
        self.f_log = z3.Function("ln", R, R)
        self.f_sqrt = z3.Function("sqrtf", R, R)
        self.f_pow10 = z3.Function("pow10", R, R)
        self.f_cos = z3.Function("cosf", R, R)
        self.f_erf = z3.Function("erff", R, R)
        self.f_powf = z3.Function("powf", R, R, R)
        self.extra_funcs = {}
        self.fresh_n = 0
        self.ratio_mode = False
        self.factor_shift = None   # offset term k: (s + k) - (t + k) and ite(c, s + k, t + k) are built from s, t (C06 robust pairs)
        self.shadow = False      # carry float64 shadows on concrete values (ShFrac) and report diverging comparisons
        self.pending_divergence = []
        self.real_compare = False
        self._in_lift = False
        self.nf_events = []
        self.choice_cls = None   # set by the interpreter: ite over values without a term representation
        self.tree_mode = False   # keep values as ite-trees with constant leaves (regime 2)
        self.watch = set()       # names of variables whose magnitude is unbounded (placeholders): see mul()
        self.watch_hits = []
        self._watch_cache = {}
        self._watch_keep = []

    # ---- helpers -------------------------------------------------
    def fresh(self, prefix, sort="real"):
        self.fresh_n += 1
        name = f"{prefix}!{self.fresh_n}"
        if sort == "real":
            return z3.Real(name)
        if sort == "int":
            return z3.Int(name)
        return z3.Bool(name)

    def lemma(self, key, fact):
        if key in self._lemma_keys:
            return
        self._lemma_keys.add(key)
        self.lemmas.append(fact)

    def uf(self, name, arity=1):
        if name not in self.extra_funcs:
            R = z3.RealSort()
            self.extra_funcs[name] = z3.Function(name, *([R] * (arity + 1)))
        return self.extra_funcs[name]

    def lit(self, x):
        """Literal of the analysed program."""
        if self.concrete:
            return x
        if isinstance(x, float):
            if is_nonfinite(x):
                return x
            return fr(lit_fraction(x))
        return x

    def conc(self, x):
        """Result of a concrete library computation (numpy etc.) -> value."""
        if self.concrete:
            return x
        return fr(x)

    # ---- constant trees (ite over rational leaves) ----------------
    def const_tree(self, v, depth=8):
        """Return nested (cond, t, f) / leaf structure if v is an ite-tree with constant leaves."""
        if not is_sym(v):
            return ("leaf", v)
        if z3.is_rational_value(v) or z3.is_int_value(v):
            return ("leaf", self._numeral(v))
        if depth > 0 and z3.is_app_of(v, z3.Z3_OP_ITE):
            t = self.const_tree(v.arg(1), depth - 1)
            f = self.const_tree(v.arg(2), depth - 1)
            if t is not None and f is not None:
                return ("ite", v.arg(0), t, f)
        if z3.is_app_of(v, z3.Z3_OP_TO_REAL):
            return self.const_tree(v.arg(0), depth)
        return None

    @staticmethod
    def _numeral(v):
        if z3.is_int_value(v):
            return v.as_long()
        return fr(Fraction(v.numerator_as_long(), v.denominator_as_long()))

    def _tree_has_zero(self, tree):
        if tree[0] == "leaf":
            return tree[1] == 0
        return self._tree_has_zero(tree[2]) or self._tree_has_zero(tree[3])

    def _map_tree(self, tree, fn):
        if tree[0] == "leaf":
            return fn(tree[1])
        _, c, t, f = tree
        return self.ite(c, self._map_tree(t, fn), self._map_tree(f, fn))

    def _lift(self, fn, *args):
        """tree_mode: apply fn leaf-wise when every symbolic argument is an ite-tree with constant leaves.

        Trees are combined like ordered decision diagrams (Shannon expansion on the condition with the smallest AST id), so the
        result never repeats a condition along a path and its depth is bounded by the number of distinct conditions."""
        trees = []
        anysym = False
        for a in args:
            if is_sym(a):
                t = self.const_tree(a, depth=12)
                if t is None:
                    return NotImplemented
                anysym = anysym or t[0] != "leaf"
                trees.append(t)
            else:
                trees.append(("leaf", a))
        if not anysym:
            return fn(*[t[1] for t in trees])

        def cof(t, c, val):
            if t[0] == "leaf":
                return t
            _, tc, hi, lo = t
            if tc.eq(c):
                return hi if val else lo
            return ("ite", tc, cof(hi, c, val), cof(lo, c, val))

        def apply(ts):
            conds = [t[1] for t in ts if t[0] != "leaf"]
            if not conds:
                return fn(*[t[1] for t in ts])
            c = min(conds, key=lambda x: x.get_id())
            hi = apply([cof(t, c, True) for t in ts])
            lo = apply([cof(t, c, False) for t in ts])
            return self.ite(c, hi, lo)
        return apply(trees)

    # ---- ite -----------------------------------------------------
    def ite(self, c, a, b):
        c = simp_bool(c)
        if self.tree_mode and is_sym(c):
            c = simp_bool(z3.simplify(c))
        if c is True:
            return a
        if c is False:
            return b
        if same(a, b):
            return a
        if is_sym(c) and z3.is_not(c):
            return self.ite(c.arg(0), b, a)
        # ite(c, ite(c, x, _), y) -> ite(c, x, y) ; ite(c, x, ite(c, _, y)) -> ite(c, x, y)
        if is_sym(a) and z3.is_app_of(a, z3.Z3_OP_ITE) and a.arg(0).eq(c):
            return self.ite(c, a.arg(1), b)
        if is_sym(b) and z3.is_app_of(b, z3.Z3_OP_ITE) and b.arg(0).eq(c):
            return self.ite(c, a, b.arg(2))
        if isinstance(a, Partial) or isinstance(b, Partial):
            av, ad = (a.value, a.defined) if isinstance(a, Partial) else (a, True)
            bv, bd = (b.value, b.defined) if isinstance(b, Partial) else (b, True)
            what = a.what if isinstance(a, Partial) else b.what
            if av is None:
                val = bv
            elif bv is None:
                val = av
            else:
                val = self.ite(c, av, bv)
            d = self.ite(c, ad, bd)
            d = simp_bool(d)
            if d is True:
                return val
            return Partial(val, d, what)
        if self.factor_shift is not None and is_sym(a) and is_sym(b):
            # ite(c, s + k, t + k) -> ite(c, s, t) + k for the designated offset term k (C06 robust offset pairs)
            sa, sb = self._strip_shift(a), self._strip_shift(b)
            if sa is not None and sb is not None:
                return self.add(self.ite(c, sa, sb), self.factor_shift)
        if isinstance(a, tuple) and isinstance(b, tuple) and len(a) == len(b):
            return tuple(self.ite(c, x, y) for x, y in zip(a, b))
        if isinstance(a, list) and isinstance(b, list) and len(a) == len(b):
            return [self.ite(c, x, y) for x, y in zip(a, b)]
        if is_boolish(a) and is_boolish(b):
            ta, tb = to_z3(a), to_z3(b)
            if isinstance(a, bool) and isinstance(b, bool):
                return c if a else z_not(c)
            if self.tree_mode:
                return simp_bool(z3.simplify(z3.If(c, ta, tb)))
            return z3.If(c, ta, tb)
        if is_nonfinite(a) or is_nonfinite(b):
            if self.tree_mode and not (is_nonfinite(a) and is_nonfinite(b)):
                # regime 2: a non-finite leaf is an error path; remember its condition (the harness turns it into an obligation)
                self.nf_events.append(c if is_nonfinite(a) else z_not(c))
                return b if is_nonfinite(a) else a
            raise Unsupported("ite between a non-finite and another value")
        if (is_sym(a) or is_conc_num(a) or isinstance(a, bool)) and (
            is_sym(b) or is_conc_num(b) or isinstance(b, bool)
        ):
            a = num_of_bool(a)
            b = num_of_bool(b)
            ta, tb = to_z3(a), to_z3(b)
            if z3.is_int(ta) and z3.is_int(tb):
                return z3.If(c, ta, tb)
            return z3.If(c, to_real(ta), to_real(tb))
        if self.choice_cls is not None:
            return self.choice_cls(c, a, b)
        raise Unsupported(f"ite of {type(a).__name__} and {type(b).__name__}")

    # ---- arithmetic ----------------------------------------------
    def _nf_binop(self, op, a, b):
        """Arithmetic with at least one concrete non-finite operand."""
        # everything symbolic is assumed finite
        if not is_sym(a) and not is_sym(b):
            fa, fb = float(a), float(b)
            try:
                if op == "add":
                    return fr(fa + fb)
                if op == "sub":
                    return fr(fa - fb)
                if op == "mul":
                    return fr(fa * fb)
                if op == "div":
                    if fb == 0:
                        if fa == 0 or math.isnan(fa):
                            return NAN
                        return math.copysign(INF, fa)
                    return fr(fa / fb)
            except OverflowError:
                return NAN
        nf = a if is_nonfinite(a) else b
        if math.isnan(nf):
            return NAN
        if op in ("add", "sub"):
            if op == "sub" and nf is b:
                return -nf
            return nf
        if op == "div" and nf is b:
            return 0
        # inf * symbolic, inf / symbolic : sign unknown (could be nan if 0)
        return NAN

    def add(self, a, b):
        if self.tree_mode and not self._in_lift:
            self._in_lift = True
            try:
                r = self._lift(lambda *k: self.add(*k), a, b)
            finally:
                self._in_lift = False
            if r is not NotImplemented:
                return r
        a, b = num_of_bool(a), num_of_bool(b)
        if is_nonfinite(a) or is_nonfinite(b):
            return self._nf_binop("add", a, b)
        if not is_sym(a) and not is_sym(b):
            return self._sh("add", a, b, self._c(a + b))
        if not is_sym(a) and a == 0:
            return b
        if not is_sym(b) and b == 0:
            return a
        ta, tb = to_z3(a), to_z3(b)
        if z3.is_int(ta) and z3.is_int(tb):
            return ta + tb
        return to_real(ta) + to_real(tb)

    def sub(self, a, b):
        if self.tree_mode and not self._in_lift:
            self._in_lift = True
            try:
                r = self._lift(lambda *k: self.sub(*k), a, b)
            finally:
                self._in_lift = False
            if r is not NotImplemented:
                return r
        a, b = num_of_bool(a), num_of_bool(b)
        if is_nonfinite(a) or is_nonfinite(b):
            return self._nf_binop("sub", a, b)
        if not is_sym(a) and not is_sym(b):
            return self._sh("sub", a, b, self._c(a - b))
        if not is_sym(b) and b == 0:
            return a
        if is_sym(a) and is_sym(b) and a.eq(b):
            return 0
        if self.factor_shift is not None and is_sym(a) and is_sym(b):
            # (s + k) - (t + k) -> s - t, built the way the unshifted execution builds it
            sa, sb = self._strip_shift(a), self._strip_shift(b)
            if sa is not None and sb is not None:
                return self.sub(sa, sb)
        ta, tb = to_z3(a), to_z3(b)
        if z3.is_int(ta) and z3.is_int(tb):
            return ta - tb
        return to_real(ta) - to_real(tb)

    def _strip_shift(self, t):
        """t == s + k (k = self.factor_shift as the last summand) -> s ; t == k -> 0 ; else None."""
        k = self.factor_shift
        if t.eq(k):
            return 0
        if z3.is_app_of(t, z3.Z3_OP_ADD) and t.num_args() >= 2 and t.arg(t.num_args() - 1).eq(k):
            rest = [t.arg(i) for i in range(t.num_args() - 1)]
            return rest[0] if len(rest) == 1 else z3.Sum(rest)
        return None

    def neg(self, a):
        a = num_of_bool(a)
        if not is_sym(a):
            return self._c(-a)
        return -a

    def _c(self, x):
        if self.concrete:
            return x
        if isinstance(x, float) and not is_nonfinite(x):
            return fr(x)
        if isinstance(x, Fraction) and x.denominator == 1:
            return int(x.numerator)
        return x

    def _sh(self, op, a, b, r):
        """Attach the float64 shadow to a concrete result when it differs from the rounded exact value (shadow mode)."""
        if not self.shadow or self.concrete or is_sym(r) or isinstance(r, (bool, float)) or not isinstance(r, (int, Fraction)):
            return r
        if isinstance(r, int) and not isinstance(a, ShFrac) and not isinstance(b, ShFrac) and op != "div":
            return r
        try:
            fa, fb = shadow_of(a), shadow_of(b)
            s = fa + fb if op == "add" else fa - fb if op == "sub" else fa * fb if op == "mul" else fa / fb
            if s == float(r) or s != s or s in (float("inf"), float("-inf")):
                return r
        except (OverflowError, ZeroDivisionError, TypeError, ValueError):
            return r
        return ShFrac(r, s)

    def _ratio(self, v):
        return v if isinstance(v, Ratio) else Ratio(v, 1, 1)

    def mul(self, a, b):
        if self.tree_mode and not self._in_lift:
            self._in_lift = True
            try:
                r = self._lift(lambda *k: self.mul(*k), a, b)
            finally:
                self._in_lift = False
            if r is not NotImplemented:
                return r
        if isinstance(a, Ratio) or isinstance(b, Ratio):
            a, b = self._ratio(a), self._ratio(b)
            return Ratio(self.mul(a.num, b.num), self.mul(a.den, b.den), self.mul(a.rad, b.rad))
        a, b = num_of_bool(a), num_of_bool(b)
        if is_nonfinite(a) or is_nonfinite(b):
            return self._nf_binop("mul", a, b)
        if not is_sym(a) and not is_sym(b):
            return self._sh("mul", a, b, self._c(a * b))
        if is_sym(a) and not is_sym(b):
            a, b = b, a
        if not is_sym(a):
            if a == 0:
                return 0
            if a == 1:
                return b
            tb = to_z3(b)
            if isinstance(a, int) and z3.is_int(tb):
                return z3.IntVal(a) * tb
            return to_z3(Fraction(a)) * to_real(tb)
        # both symbolic
        ta = self.const_tree(a)
        if ta is not None:
            return self._map_tree(ta, lambda k: self.mul(k, b))
        tb = self.const_tree(b)
        if tb is not None:
            return self._map_tree(tb, lambda k: self.mul(a, k))
        if self.policy == "poly":
            if z3.is_int(a) and z3.is_int(b):
                return a * b
            return to_real(a) * to_real(b)
        if self.policy == "exact":
            raise NonLinear(f"product of two symbolic terms in exact regime: {a} * {b}")
        ra, rb = to_real(a), to_real(b)
        if self.watch:
            # magnitude watch (DESIGN 4.1): a value that still depends on a watched variable (a placeholder of unbounded magnitude)
            # enters a product of two unknowns - in floating point that product can overflow before a zero weight removes it
            for t in (ra, rb):
                if self._mentions_watched(t):
                    self.watch_hits.append((ra, rb))
                    break
        # commutative by construction, independently of how the operands are written: m = f(a, b) + f(b, a)
        # (ordering the operands by AST id or structure is not enough - two executions may build semantically equal but
        # structurally different operands, and the order must not depend on that)
        m = self.f_mul(ra, rb) + self.f_mul(rb, ra) if not ra.eq(rb) else self.f_mul(ra, ra)
        self.uf_apps += 1
        key = ("mul", min(ra.get_id(), rb.get_id()), max(ra.get_id(), rb.get_id()))
        if key not in self._lemma_keys:
            facts = [
                z3.Implies(ra == 0, m == 0),
                z3.Implies(rb == 0, m == 0),
                z3.Implies(ra == 1, m == rb),
                z3.Implies(rb == 1, m == ra),
            ]
            if ra.eq(rb):
                facts.append(m >= 0)
                facts.append(z3.Implies(m == 0, ra == 0))
            else:
                facts.append(z3.Implies(z3.And(ra > 0, rb > 0), m > 0))
                facts.append(z3.Implies(z3.And(ra >= 0, rb >= 0), m >= 0))
            self.lemma(key, z3.And(*facts))
        return m

    def _mentions_watched(self, t):
        key = t.get_id()
        hit = self._watch_cache.get(key)
        if hit is None:
            hit = False
            stack, seen = [t], set()
            while stack:
                x = stack.pop()
                i = x.get_id()
                if i in seen:
                    continue
                seen.add(i)
                if z3.is_const(x) and x.decl().kind() == z3.Z3_OP_UNINTERPRETED and x.decl().name() in self.watch:
                    hit = True
                    break
                stack.extend(x.children())
            self._watch_cache[key] = hit
            self._watch_keep.append(t)
        return hit

    def div(self, a, b):
        if self.tree_mode and not self._in_lift:
            self._in_lift = True
            try:
                r = self._lift(lambda *k: self.div(*k), a, b)
            finally:
                self._in_lift = False
            if r is not NotImplemented:
                return r
        """True division (result real)."""
        if isinstance(a, Ratio) or isinstance(b, Ratio):
            a, b = self._ratio(a), self._ratio(b)
            # (n1/(d1 sqrt r1)) / (n2/(d2 sqrt r2)) = n1 d2 r2 / (d1 n2 sqrt(r1 r2)) ... sqrt(r2) = r2/sqrt(r2)
            return Ratio(self.mul(self.mul(a.num, b.den), b.rad), self.mul(a.den, b.num), self.mul(a.rad, b.rad))
        a, b = num_of_bool(a), num_of_bool(b)
        if is_nonfinite(a) or is_nonfinite(b):
            return self._nf_binop("div", a, b)
        if not is_sym(b):
            if b == 0:
                if not is_sym(a):
                    return self._nf_binop("div", a, b)
                return NAN  # x/0 with x symbolic: non-finite of unknown sign
            if not is_sym(a):
                if self.concrete:
                    return a / b
                return self._sh("div", a, b, self._c(Fraction(a) / Fraction(b)))
            return to_z3(Fraction(1) / Fraction(b)) * to_real(a)
        tb = self.const_tree(b)
        if tb is None and self.tree_mode and is_sym(b):
            tb = self.const_tree(b, depth=12)
        if tb is not None and (self.tree_mode or not self._tree_has_zero(tb)):
            return self._map_tree(tb, lambda k: self.div(a, k))
        if not is_sym(a) and a == 0:
            return 0
        if self.policy == "poly":
            return to_real(a) / to_real(b)
        if self.policy == "exact":
            raise NonLinear(f"division by a symbolic term in exact regime: {a} / {b}")
        ra, rb = to_real(a), to_real(b)
        q = self.f_div(ra, rb)
        self.uf_apps += 1
        key = ("div", ra.get_id(), rb.get_id())
        if key not in self._lemma_keys:
            facts = [
                z3.Implies(rb == 1, q == ra),
                z3.Implies(ra == 0, q == 0),
                z3.Implies(z3.And(ra > 0, rb > 0), q > 0),
                z3.Implies(z3.And(ra >= 0, rb > 0), q >= 0),
                z3.Implies(z3.And(ra == rb, rb != 0), q == 1),
            ]
            self.lemma(key, z3.And(*facts))
        return q

    def floordiv(self, a, b):
        a, b = num_of_bool(a), num_of_bool(b)
        if not is_sym(a) and not is_sym(b):
            return self._c(a // b)
        ta, tb = to_z3(a), to_z3(b)
        if z3.is_int(ta) and z3.is_int(tb):
            if not is_sym(b) and b > 0:
                return ta / tb  # z3 int div == floor for positive divisor
            raise Unsupported('floor division by a non-positive or symbolic divisor')
        return self.floor(self.div(a, b))

    def mod(self, a, b):
        a, b = num_of_bool(a), num_of_bool(b)
        if not is_sym(a) and not is_sym(b):
            return self._c(a % b)
        ta, tb = to_z3(a), to_z3(b)
        if z3.is_int(ta) and z3.is_int(tb) and not is_sym(b) and b > 0:
            return ta % tb
        raise Unsupported("mod with symbolic or non-positive divisor")

    def floor(self, a):
        if not is_sym(a):
            return math.floor(a)
        if z3.is_int(a):
            return a
        return z3.ToInt(a)

    def trunc(self, a):
        """Python int(): truncation toward zero."""
        a = num_of_bool(a)
        if not is_sym(a):
            if is_nonfinite(a):
                raise Unsupported("int() of non-finite")
            return int(a)
        if z3.is_int(a):
            return a
        return z3.If(a >= 0, z3.ToInt(a), -z3.ToInt(-a))

    def round_half_even(self, a):
        """round() / np.round(x, 0): integer-valued result (Int term or int)."""
        a = num_of_bool(a)
        if not is_sym(a):
            if is_nonfinite(a):
                return a
            if self.concrete:
                return round(a)
            f = Fraction(a)
            fl = math.floor(f)
            r = f - fl
            if r < Fraction(1, 2):
                return fl
            if r > Fraction(1, 2):
                return fl + 1
            return fl if fl % 2 == 0 else fl + 1
        if z3.is_int(a):
            return a
        fl = z3.ToInt(a)
        r = a - z3.ToReal(fl)
        half = z3.RealVal(Fraction(1, 2))
        return z3.If(r < half, fl, z3.If(r > half, fl + 1, z3.If(fl % 2 == 0, fl, fl + 1)))

    def abs(self, a):
        if self.tree_mode and not self._in_lift:
            self._in_lift = True
            try:
                r = self._lift(lambda *k: self.abs(*k), a)
            finally:
                self._in_lift = False
            if r is not NotImplemented:
                return r
        a = num_of_bool(a)
        if not is_sym(a):
            return self._c(abs(a))
        zero = 0
        return z3.If(a >= zero, a, -a)

    def minimum(self, a, b):
        c = self.cmp("<=", a, b)
        return self.ite(c, a, b)

    def maximum(self, a, b):
        c = self.cmp(">=", a, b)
        return self.ite(c, a, b)

    # ---- comparison ---------------------------------------------
    def cmp(self, op, a, b):
        if self.tree_mode and not self._in_lift:
            self._in_lift = True
            try:
                r = self._lift(lambda x, y: self.cmp(op, x, y), a, b)
            finally:
                self._in_lift = False
            if r is not NotImplemented:
                return r
        if is_boolish(a) and is_boolish(b) and op in ("==", "!="):
            if isinstance(a, bool) and isinstance(b, bool):
                return (a == b) if op == "==" else (a != b)
            r = to_z3(a) == to_z3(b)
            return r if op == "==" else z_not(r)
        a, b = num_of_bool(a), num_of_bool(b)
        if is_nonfinite(a) or is_nonfinite(b):
            fa = a if not is_sym(a) else None
            fb = b if not is_sym(b) else None
            if (fa is not None and isinstance(fa, float) and math.isnan(fa)) or (
                fb is not None and isinstance(fb, float) and math.isnan(fb)
            ):
                return op == "!="
            if fa is not None and fb is not None:
                return _pycmp(op, float(fa), float(fb))
            # +-inf against a finite symbolic value
            inf_left = fa is not None and is_nonfinite(fa)
            v = fa if inf_left else fb
            pos = v > 0
            if op == "==":
                return False
            if op == "!=":
                return True
            if inf_left:
                return (op in (">", ">=")) if pos else (op in ("<", "<="))
            return (op in ("<", "<=")) if pos else (op in (">", ">="))
        if not is_sym(a) and not is_sym(b):
            r = _pycmp(op, a, b)
            if self.shadow and (isinstance(a, ShFrac) or isinstance(b, ShFrac)):
                try:
                    rf = _pycmp(op, shadow_of(a), shadow_of(b))
                except (OverflowError, TypeError, ValueError):
                    rf = r
                if rf != r:
                    self.pending_divergence.append(f"{Fraction(a)} {op} {Fraction(b)} is {r} exactly and {rf} in float64 "
                                                   f"({shadow_of(a)!r} {op} {shadow_of(b)!r})")
            return r
        if is_sym(a) and is_sym(b) and a.eq(b):
            return op in ("==", "<=", ">=")
        ta, tb = to_z3(a), to_z3(b)
        if not (z3.is_int(ta) and z3.is_int(tb)) or (self.real_compare and not (is_sym(a) and is_sym(b))):
            # real_compare: an integer unknown against a constant is compared in the reals, so that int16 and float64
            # views of the same data produce the same terms
            ta, tb = to_real(ta), to_real(tb)
        if ta.eq(tb):
            return op in ("==", "<=", ">=")
        if op == "==":
            r = ta == tb
        elif op == "!=":
            r = ta != tb
        elif op == "<":
            r = ta < tb
        elif op == "<=":
            r = ta <= tb
        elif op == ">":
            r = ta > tb
        elif op == ">=":
            r = ta >= tb
        else:
            raise Unsupported(op)
        return r

    # ---- transcendental / misc ------------------------------------
    def _unary_uf(self, f, x, pyf, name):
        if is_nonfinite(x):
            try:
                return fr(pyf(x))
            except (ValueError, OverflowError):
                return NAN
        if not is_sym(x):
            try:
                return self._c(pyf(float(x)) if not self.concrete else pyf(x))
            except (ValueError, OverflowError, ZeroDivisionError):
                return None
        self.uf_apps += 1
        return f(to_real(x))

    def log(self, x):
        if self.tree_mode and not self._in_lift:
            self._in_lift = True
            try:
                r = self._lift(lambda *k: self.log(*k), x)
            finally:
                self._in_lift = False
            if r is not NotImplemented:
                return r
        x = num_of_bool(x)
        if not is_sym(x):
            if is_nonfinite(x):
                return NAN if (math.isnan(x) or x < 0) else INF
            if x == 0:
                return -INF
            if x < 0:
                return NAN
            return self._c(math.log(x))
        self.uf_apps += 1
        return self.f_log(to_real(x))

    def sqrt(self, x):
        if self.tree_mode and not self._in_lift:
            self._in_lift = True
            try:
                r = self._lift(lambda *k: self.sqrt(*k), x)
            finally:
                self._in_lift = False
            if r is not NotImplemented:
                return r
        x = num_of_bool(x)
        if self.ratio_mode and is_sym(x):
            return Ratio(x, 1, x)
        if not is_sym(x):
            if is_nonfinite(x):
                return NAN if (math.isnan(x) or x < 0) else INF
            if x < 0:
                return NAN
            r = math.isqrt(x) if isinstance(x, int) and x >= 0 else None
            if r is not None and r * r == x:
                return r
            if isinstance(x, Fraction):
                n, d = x.numerator, x.denominator
                rn, rd = math.isqrt(n), math.isqrt(d)
                if rn * rn == n and rd * rd == d:
                    return fr(Fraction(rn, rd))
            return self._c(math.sqrt(x))
        self.uf_apps += 1
        rx = to_real(x)
        s = self.f_sqrt(rx)
        self.lemma(("sqrt", rx.get_id()), z3.And(z3.Implies(rx >= 0, s >= 0), z3.Implies(rx > 0, s > 0),
                                                 z3.Implies(rx == 0, s == 0), z3.Implies(rx == 1, s == 1)))
        return s

    def pow10(self, x):
        if self.tree_mode and not self._in_lift:
            self._in_lift = True
            try:
                r = self._lift(lambda *k: self.pow10(*k), x)
            finally:
                self._in_lift = False
            if r is not NotImplemented:
                return r
        x = num_of_bool(x)
        if not is_sym(x):
            if is_nonfinite(x):
                if math.isnan(x):
                    return NAN
                return INF if x > 0 else 0
            if self.concrete:
                return 10.0 ** x
            f = Fraction(x)
            if f.denominator == 1 and abs(f.numerator) <= 40:
                return fr(Fraction(10) ** int(f.numerator))
            return fr(10.0 ** float(x))
        self.uf_apps += 1
        rx = to_real(x)
        p = self.f_pow10(rx)
        self.lemma(("pow10", rx.get_id()), p > 0)
        return p

    def power(self, a, b):
        """a ** b."""
        a, b = num_of_bool(a), num_of_bool(b)
        if not is_sym(b):
            if is_nonfinite(a):
                if self.concrete or not is_sym(a):
                    try:
                        return fr(float(a) ** float(b))
                    except Exception:
                        return NAN
            if b == 2:
                return self.mul(a, a)
            if b == 1:
                return a
            if b == 0:
                return 1
            if b == Fraction(1, 2) or b == 0.5:
                return self.sqrt(a)
            if b == Fraction(-1, 2) or b == -0.5:
                if self.ratio_mode and is_sym(a):
                    return Ratio(1, 1, a)
                return self.div(1, self.sqrt(a))
            if b == -1:
                return self.div(1, a)
            if isinstance(b, int) and 2 < b <= 4:
                r = a
                for _ in range(b - 1):
                    r = self.mul(r, a)
                return r
            if not is_sym(a):
                if self.concrete:
                    return a ** b
                if isinstance(b, int):
                    return self._c(Fraction(a) ** b)
                return self._c(float(a) ** float(b))
        if not is_sym(a) and a == 10:
            return self.pow10(b)
        if not is_sym(a) and not is_sym(b):
            return self._c(float(a) ** float(b))
        self.uf_apps += 1
        return self.f_powf(to_real(a), to_real(b))

    def cos(self, x):
        if not is_sym(x):
            return self._c(math.cos(x))
        self.uf_apps += 1
        return self.f_cos(to_real(x))

    def erf(self, x):
        if not is_sym(x):
            return self._c(math.erf(x))
        self.uf_apps += 1
        return self.f_erf(to_real(x))

    def truthy(self, v):
        """Python truthiness of a scalar value -> bool or Bool term."""
        if isinstance(v, Partial):
            raise Unsupported("truthiness of partial value")
        if isinstance(v, bool):
            return v
        if is_sym(v):
            if z3.is_bool(v):
                return simp_bool(v)
            return simp_bool(v != 0)
        if v is None:
            return False
        if is_conc_num(v):
            if is_nonfinite(v):
                return True
            return v != 0
        if isinstance(v, (list, tuple, str, dict)):
            return len(v) > 0
        return bool(v)


def _pycmp(op, a, b):
    if op == "==":
        return a == b
    if op == "!=":
        return a != b
    if op == "<":
        return a < b
    if op == "<=":
        return a <= b
    if op == ">":
        return a > b
    if op == ">=":
        return a >= b
    raise Unsupported(op)
