"""Reference models of the Whittaker smoother family, written from the property statements (C02-C06).

These are executed by the same symbolic evaluator as the kernels (plain Python, no Numba). The only thing shared with
the implementation is the core solver `ws2d` (whose correctness is C01): every curve below is "the penalised
least-squares solution for these weights and this lambda".
"""
from math import log, sqrt

import numpy as np

from hdc.algo.ops.ws2d import ws2d


def valid_weights(y, nodata, nonfinite_aware):
    """1 on observed cells, 0 on missing cells (== nodata; for the NaN-aware variants also NaN / inf)."""
    m = y.shape[0]
    w = np.zeros(m)
    for i in range(m):
        missing = y[i] == nodata
        if nonfinite_aware:
            missing = missing or np.isnan(y[i]) or np.isinf(y[i])
        if missing:
            w[i] = 0
        else:
            w[i] = 1
    return w


def count(w):
    n = 0
    for i in range(w.shape[0]):
        n += w[i]
    return n


def rounded(z):
    m = z.shape[0]
    out = np.zeros(m)
    for i in range(m):
        out[i] = round(z[i])
    return out


def passthrough(y):
    out = np.zeros(y.shape[0])
    out[:] = y[:]
    return out


def asym_weights(y, z, w, p):
    """cells above the curve weigh p, the others 1 - p (times the validity weight)."""
    m = y.shape[0]
    ww = np.zeros(m)
    for j in range(m):
        if y[j] > z[j]:
            ww[j] = w[j] * p
        else:
            ww[j] = w[j] * (1 - p)
    return ww


def asym_curve(y, lmda, w, p, z0):
    """At most 10 reweighting passes from curve z0, stopping when a pass no longer changes the curve.

    Returns (curve the passes stopped at, curve solved with the weights of the last pass)."""
    m = y.shape[0]
    z = z0.copy()
    ww = np.zeros(m)
    for _ in range(10):
        ww = asym_weights(y, z, w, p)
        znew = ws2d(y, lmda, ww)
        change = 0.0
        for j in range(m):
            change += abs(znew[j] - z[j])
        if change == 0.0:
            break
        z = znew
    return z, ws2d(y, lmda, ww)


def fixed(y, lmda, nodata):
    """whits without p: rounded PLS curve with unit weight on valid cells; lambda = 0 or < 2 valid cells: unchanged."""
    w = valid_weights(y, nodata, True)
    if lmda == 0.0:
        return passthrough(y)
    if count(w) < 2:
        return passthrough(y)
    return rounded(ws2d(y, lmda, w))


def fixed_p(y, lmda, nodata, p):
    """whits with p: rounded expectile curve reached by <= 10 passes from the zero curve."""
    w = valid_weights(y, nodata, True)
    if lmda == 0.0:
        return passthrough(y)
    if count(w) < 2:
        return passthrough(y)
    zstop, zfinal = asym_curve(y, lmda, w, p, np.zeros(y.shape[0]))
    return rounded(zfinal)


def log_fit_and_roughness(y, z, w):
    m = y.shape[0]
    fit = 0.0
    for i in range(m):
        r = w[i] * (y[i] - z[i])
        fit += r * r
    pen = 0.0
    for i in range(m - 2):
        d2 = z[i] - 2 * z[i + 1] + z[i + 2]
        pen += d2 * d2
    return log(fit), log(pen)


def vcurve_points(y, w, llas, p, warm):
    """(log fit, log roughness) of the curve at every grid lambda. p None: plain PLS curve. Otherwise the expectile
    iteration, warm-started from the previous grid point's curve (warm=True) or from zero (warm=False)."""
    nl = llas.shape[0]
    m = y.shape[0]
    fits = np.zeros(nl)
    pens = np.zeros(nl)
    z = np.zeros(m)
    for k in range(nl):
        lmda = pow(10, llas[k])
        if p is None:
            z = ws2d(y, lmda, w)
        else:
            if not warm:
                z = np.zeros(m)
            z, zfinal = asym_curve(y, lmda, w, p, z)
        f, r = log_fit_and_roughness(y, z, w)
        fits[k] = f
        pens[k] = r
    return fits, pens


def vcurve_values(fits, pens, llas):
    """V_k: distance between successive (log fit, log roughness) points per unit log10(lambda) * ln(10)."""
    nl = llas.shape[0]
    v = np.zeros(nl - 1)
    step = llas[1] - llas[0]
    for k in range(nl - 1):
        df = fits[k + 1] - fits[k]
        dp = pens[k + 1] - pens[k]
        v[k] = sqrt(df * df + dp * dp) / (log(10) * step)
    return v


def midpoints(llas):
    nl = llas.shape[0]
    mids = np.zeros(nl - 1)
    for k in range(nl - 1):
        mids[k] = (llas[k] + llas[k + 1]) / 2
    return mids


def gcv_scores(y, w, llas):
    """GCV score of the PLS curve at every grid lambda (C05): sum w (y - z)^2 / (n (1 - trH/n)^2), with trH from the
    eigenvalues -2 + 2 cos(k pi / m) of the difference operator (first one replaced by 1e-15)."""
    m = y.shape[0]
    nl = llas.shape[0]
    eigs = -2 + 2 * np.cos(np.arange(m) * np.pi / m)
    eigs[0] = 1e-15
    n = count(w)
    scores = np.zeros(nl)
    for k in range(nl):
        lmda = pow(10, llas[k])
        z = ws2d(y, lmda, w)
        tr_h = 0.0
        for i in range(m):
            tr_h += w[i] / (w[i] + lmda * (eigs[i] * eigs[i]))
        wsse = 0.0
        for i in range(m):
            r = y[i] - z[i]
            wsse += w[i] * (r * r)
        shrink = 1 - tr_h / n
        scores[k] = wsse / (n * (shrink * shrink))
    return scores
