"""Reference model of the SPI composition, written from the statement of C07 (run by the same evaluator).

Numerical kernels are contracts shared with the implementation: `brentq(xa, xb, s)` (the root of log(a) - digamma(a) = s in the
bracket, or 0), `gammainc`, `ndtri`, `log`, `sqrt`.
"""
from math import log, sqrt

import numpy as np
import scipy.special as sc

from hdc.algo.ops.stats import brentq


def spi_pixel(x, nodata, cal_start, cal_stop):
    """Unscaled index per step (nodata where there is no index), for one pixel."""
    t = x.shape[0]
    out = np.zeros(t)
    n_valid = 0
    n_zero = 0
    for i in range(t):
        if x[i] != nodata and x[i] >= 0:
            n_valid += 1
            if x[i] == 0:
                n_zero += 1
    for i in range(t):
        out[i] = nodata
    if n_valid == 0:
        return out
    p0 = n_zero / n_valid
    if p0 > 0.9:
        return out
    # maximum-likelihood gamma fit on the positive values inside the calibration window
    npos = 0
    total = 0.0
    logs = 0.0
    for i in range(cal_start, cal_stop):
        if x[i] != nodata and x[i] > 0:
            npos += 1
            total += x[i]
            logs += log(x[i])
    if npos == 0:
        return out
    mean = total / npos
    s = log(mean) - logs / npos
    if s == 0:
        return out
    thom = (3 - s + sqrt((s - 3) ** 2 + 24 * s)) / (12 * s)
    alpha = brentq(thom * (1 - 0.4), thom * (1 + 0.4), s)
    if alpha == 0:
        return out
    beta = mean / alpha
    if beta == 0:
        return out
    for i in range(t):
        if x[i] != nodata and x[i] >= 0:
            out[i] = sc.ndtri(p0 + (1 - p0) * sc.gammainc(alpha, x[i] / beta))
    return out


def spi_scaled(x, nodata, cal_start, cal_stop):
    """round(1000 * index), saturated at +-32767; nodata cells stay nodata."""
    z = spi_pixel(x, nodata, cal_start, cal_stop)
    t = x.shape[0]
    out = np.zeros(t)
    for i in range(t):
        if z[i] == nodata:
            out[i] = nodata
        else:
            # an index that leaves the int16 range saturates (C08)
            out[i] = round(min(max(z[i] * 1000, -32767.0), 32767.0))
    return out
