"""Replay actions (run under /venv against the real compiled code). Each returns JSON-able data.

The concrete oracles here are written from the property statements, independently of pysym.
"""
import math
import os
import sys
import warnings

import numpy as np

warnings.filterwarnings("ignore")


def jsonable(x):
    if isinstance(x, np.ndarray):
        return jsonable(x.tolist())
    if isinstance(x, (np.floating, float)):
        x = float(x)
        if math.isnan(x):
            return "nan"
        if math.isinf(x):
            return "inf" if x > 0 else "-inf"
        return x
    if isinstance(x, (np.integer,)):
        return int(x)
    if isinstance(x, (np.bool_,)):
        return bool(x)
    if isinstance(x, (list, tuple)):
        return [jsonable(i) for i in x]
    if isinstance(x, dict):
        return {str(k): jsonable(v) for k, v in x.items()}
    return x


def unjson(x):
    if isinstance(x, str):
        return {"nan": math.nan, "inf": math.inf, "-inf": -math.inf}.get(x, x)
    if isinstance(x, list):
        return [unjson(i) for i in x]
    return x


def ping():
    import hdc.algo
    return {"hdc": hdc.algo.__file__}


def _resolve(path):
    mod, name = path.split(":")
    import importlib
    m = importlib.import_module(mod)
    obj = m
    for part in name.split("."):
        obj = getattr(obj, part)
    return obj


def call(fn, args, kwargs=None, py_func=False):
    """Generic call: args are [value] or {"nd": nested list, "dtype": str}."""
    f = _resolve(fn)
    if py_func:
        f = getattr(f, "py_func", getattr(f, "__wrapped__", f))

    def conv(a):
        if isinstance(a, dict) and "nd" in a:
            return np.array(unjson(a["nd"]), dtype=a["dtype"])
        return unjson(a)
    try:
        res = f(*[conv(a) for a in args], **{k: conv(v) for k, v in (kwargs or {}).items()})
    except Exception as e:  # noqa
        return {"raised": type(e).__name__, "msg": str(e)[:200]}
    if isinstance(res, tuple):
        return {"value": [jsonable(r) for r in res]}
    return {"value": jsonable(res)}


# ------------------------------------------------------------------ C17
def c17_rolling(xx, window, nodata, dtype="int16"):
    from hdc.algo.ops.stats import rolling_sum
    x = np.array(xx, dtype=dtype)
    out = rolling_sum(x, window, nodata)
    out = [float(v) for v in out]
    bad = []
    n = len(xx)
    for ii in range(n):
        if ii < window - 1:
            if out[ii] != float(np.float32(nodata)):
                bad.append((ii, "incomplete window must be nodata", out[ii]))
            continue
        win = [xx[j] for j in range(ii - window + 1, ii + 1)]
        valid = [v for v in win if v != nodata]
        s = float(np.float32(sum(valid)))
        nd = float(np.float32(nodata))
        if len(valid) == len(win):
            ok = out[ii] == s
        elif not valid:
            ok = out[ii] == nd
        else:
            ok = out[ii] == nd or out[ii] == s
        if not ok:
            bad.append((ii, f"window={win}", out[ii]))
    return {"violates": bool(bad), "out": out, "bad": bad}


def c17_rolling_absorb(window, n):
    """A window's result must not depend on cells that have left it: series in which one huge cell (int64 above 2**53, float32 1e17 /
    1e30) passes through the window, followed by small cells and nodata cells; every complete window against the exact sum of its own
    valid cells (tolerance: float32 rounding of the window's own magnitudes)."""
    from fractions import Fraction as Fr
    from hdc.algo.ops.stats import rolling_sum
    bad = []
    W = max(2, int(window))
    L = max(int(n), 3 * W + 4)
    nd = -9999
    cases = []
    for big, dtype in ((2 ** 60, "int64"), (2 ** 55 + 1, "int64"), (1e17, "float32"), (1e30, "float32"), (30000, "int16")):
        for posn in (0, 1, W):
            xs = [((7 * i) % 5) + 1 for i in range(L)]
            xs[posn] = big
            cases.append((xs, dtype))
            ys = list(xs)
            ys[posn + W + 1] = nd
            cases.append((ys, dtype))
    for xs, dtype in cases:
        arr = np.array(xs, dtype=dtype)
        try:
            out = [float(v) for v in rolling_sum(arr, W, nd)]
        except Exception as e:  # noqa
            return {"violates": True, "raised": f"{type(e).__name__}: {e}"[:200]}
        vals = [Fr(float(v)) if dtype == "float32" else Fr(int(v)) for v in arr]
        for ii in range(W - 1, L):
            win = vals[ii - W + 1: ii + 1]
            raw = list(arr[ii - W + 1: ii + 1])
            valid = [v for v, r in zip(win, raw) if r != nd]
            if not valid:
                continue
            exact = sum(valid)
            tol = Fr(W) * Fr(1, 2 ** 22) * sum(abs(v) for v in valid) + Fr(1, 1000)
            okv = abs(Fr(out[ii]) - exact) <= tol
            oknd = len(valid) < len(win) and out[ii] == float(np.float32(nd))
            if not (okv or oknd):
                bad.append({"dtype": dtype, "position": ii, "window": [float(v) for v in raw], "got": out[ii], "exact_sum": float(exact)})
                break
    return {"violates": bool(bad), "bad": bad[:4]}


def c17_rolling_pair(vals, miss, window, nd1, nd2, dtype="int16"):
    from hdc.algo.ops.stats import rolling_sum
    x1 = np.array([nd1 if m else v for v, m in zip(vals, miss)], dtype=dtype)
    x2 = np.array([nd2 if m else v for v, m in zip(vals, miss)], dtype=dtype)
    o1 = [float(v) for v in rolling_sum(x1, window, nd1)]
    o2 = [float(v) for v in rolling_sum(x2, window, nd2)]
    bad = [i for i, (a, b) in enumerate(zip(o1, o2)) if not ((a == nd1 and b == nd2) or a == b)]
    return {"violates": bool(bad), "out1": o1, "out2": o2, "bad": bad}


def c17_mean_grp(xx, groups, nodata, dtype="int16"):
    from hdc.algo.ops.stats import mean_grp
    x = np.array(xx, dtype=dtype)
    g = np.array(groups, dtype="int16")
    ng = int(max(groups)) + 1
    out = [float(v) for v in mean_grp(x, g, ng, nodata)]
    bad = []
    for i in range(len(xx)):
        mem = [xx[j] for j in range(len(xx)) if groups[j] == groups[i] and xx[j] != nodata]
        exp = float(np.float32(sum(mem) / len(mem))) if mem else float(np.float32(nodata))
        if not (abs(out[i] - exp) <= 1e-6 * max(1.0, abs(exp))):
            bad.append((i, exp, out[i]))
    return {"violates": bool(bad), "out": out, "bad": bad}


# ------------------------------------------------------------------ C01
def c01_ws2d(y, w, lam):
    from hdc.algo.ops.ws2d import ws2d
    y = np.array(unjson(y), dtype="float64")
    w = np.array(unjson(w), dtype="float64")
    n = len(y)
    try:
        z = np.asarray(ws2d(y.copy(), float(lam), w.copy()), dtype="float64")
    except Exception as e:  # noqa
        return {"violates": True, "why": f"raised {type(e).__name__}: {e}"}
    if z.shape != (n,):
        return {"violates": True, "why": f"shape {z.shape}"}
    D = np.diff(np.eye(n), 2, axis=0)
    A = np.diag(w) + float(lam) * D.T @ D
    ref = np.linalg.solve(A, w * y)
    scale = max(1.0, float(np.max(np.abs(ref))))
    err = float(np.max(np.abs(z - ref))) / scale if np.all(np.isfinite(z)) else float("inf")
    cond = float(np.linalg.cond(A))
    # the counterexample is an exact-arithmetic one: demand a clear float64 discrepancy, scaled by conditioning
    tol = max(1e-6, 1e-13 * cond)
    out = {"violates": bool(err > tol), "err": err, "tol": tol, "z": z, "ref": ref}
    if not out["violates"]:
        # the exact-rational clause: the interpreted source run on Fractions must satisfy the normal equations identically
        ex = _c01_exact_residual(y, w, lam)
        if ex is not None and ex["max_residual"] != 0:
            out = {"violates": True, "why": "executed in exact rational arithmetic the algorithm does not solve (W + lam D'D) z = W y",
                   "max_residual": float(ex["max_residual"]), "row": ex["row"], "n": n}
    return out


def _c01_exact_residual(y, w, lam):
    from fractions import Fraction as Fr
    import hdc.algo.ops.ws2d as mod
    f = getattr(mod.ws2d, "py_func", None)
    if f is None:
        return None
    n = len(y)

    def fr(v):
        return Fr(v).limit_denominator(10**12) if isinstance(v, float) else Fr(str(v))
    yy = np.array([fr(float(v)) for v in y], dtype=object)
    ww = np.array([fr(float(v)) for v in w], dtype=object)
    lm = fr(float(lam))
    old = mod.zeros
    mod.zeros = lambda k, *a, **kw: np.array([Fr(0)] * int(k), dtype=object)
    try:
        z = f(yy, lm, ww)
    except Exception:  # noqa
        return None
    finally:
        mod.zeros = old
    worst, row = Fr(0), -1
    for i in range(n):
        acc = ww[i] * z[i]
        for r in range(max(0, i - 2), min(n - 2, i + 1)):
            co = {r: 1, r + 1: -2, r + 2: 1}
            acc += lm * co[i] * (z[r] - 2 * z[r + 1] + z[r + 2])
        res = abs(acc - ww[i] * yy[i])
        if res > worst:
            worst, row = res, i
    return {"max_residual": worst, "row": row}


# ------------------------------------------------------------------ C18
def _longest_run(data):
    best = cur = 0
    for v in data:
        cur = cur + 1 if v == 1 else 0
        best = max(best, cur)
    return best if best >= 2 else 0


def c18_lroo(data, accessor=False):
    from hdc.algo.ops import lroo
    x = np.array(data, dtype="uint8")
    if accessor:
        import xarray as xr
        import hdc.algo  # noqa
        da = xr.DataArray(x.reshape(-1, 1, 1), dims=("time", "y", "x"))
        got = int(da.hdc.algo.lroo().values[0, 0])
    else:
        got = int(lroo(x))
    exp = _longest_run(data)
    return {"violates": got != exp, "got": got, "expected": exp, "n": len(data)}


def c18_lroo_dtype():
    import xarray as xr
    import hdc.algo  # noqa
    from hdc.algo.ops import lroo
    x = np.array([1, 1, 0], dtype="uint8")
    k = lroo(x)
    da = xr.DataArray(x.reshape(-1, 1, 1), dims=("time", "y", "x")).chunk({"time": -1})
    lazy = da.hdc.algo.lroo()
    return {"violates": str(lazy.dtype) != str(np.asarray(k).dtype), "lazy": str(lazy.dtype), "kernel": str(np.asarray(k).dtype)}


def c18_croo(values, times, dims=None):
    import xarray as xr
    import pandas as pd
    import hdc.algo  # noqa
    n = len(values)
    t = pd.to_datetime("2000-01-01") + pd.to_timedelta(np.array(times, dtype="int64"), unit="D")
    da = xr.DataArray(np.array(values, dtype="int64").reshape(n, 1, 1), dims=("time", "y", "x"), coords={"time": t})
    if dims and len(dims) == 3:
        da = da.transpose(*dims)
    got = int(np.asarray(da.hdc.algo.croo().values).reshape(-1)[0])
    order = np.argsort(times)[::-1]
    exp = 0
    for i in order:
        if values[i] == 1:
            exp += 1
        else:
            break
    return {"violates": got != exp, "croo": got, "expected": exp}


# ------------------------------------------------------------------ C19
def c19_get_indexer(labels, x, method):
    import pandas as pd
    return {"pos": int(pd.Index(labels).get_indexer([x], method=method)[0])}


def _locate(labels, x, method):
    import bisect
    if method is None:
        return labels.index(x) if x in labels else None
    if method == "ffill":
        k = bisect.bisect_right(labels, x) - 1
        return k if k >= 0 else None
    if method == "bfill":
        k = bisect.bisect_left(labels, x)
        return k if k < len(labels) else None
    best = min(range(len(labels)), key=lambda i: (abs(labels[i] - x), -i))
    return best


def c19_iteragg(L, labels, n, begin, end, method, which, dim, lead=True, old_labels=None):
    import xarray as xr
    import pandas as pd
    import hdc.algo  # noqa
    rng = np.random.default_rng(L * 131 + len(str(labels)))
    data = rng.normal(size=(L, 2, 2))
    data[rng.random(size=data.shape) < 0.2] = np.nan
    if dim == "time":
        base = pd.Timestamp("2000-01-01")
        conv = lambda k: base + pd.Timedelta(days=int(k))  # noqa: E731
    else:
        conv = lambda k: int(k)  # noqa: E731
    coords = [conv(k) for k in labels]
    if old_labels:
        # the history of the candidate: the same object aggregated once under its old labels, then relabelled in place
        da = xr.DataArray(data, dims=(dim, "y", "x"), coords={dim: [conv(k) for k in old_labels]})
        if not lead:
            da = da.transpose("y", "x", dim)
        list(getattr(da.hdc.iteragg, which)(dim=dim))
        da[dim] = coords
    else:
        da = xr.DataArray(data, dims=(dim, "y", "x"), coords={dim: coords})
        if not lead:
            da = da.transpose("y", "x", dim)
    kw = {"n": n, "dim": dim, "method": method}
    if begin is not None:
        kw["begin"] = conv(begin)
    if end is not None:
        kw["end"] = conv(end)
    pb = _locate(labels, begin, method) if begin is not None else L - 1
    pe = _locate(labels, end, method) if end is not None else 0
    nn = n if n is not None else L
    expect_error = pb is None or pe is None
    try:
        got = list(getattr(da.hdc.iteragg, which)(**kw))
        err = None
    except Exception as e:  # noqa
        got, err = None, f"{type(e).__name__}: {e}"[:200]
    if expect_error:
        ok = err is not None and err.startswith("ValueError")
        return {"violates": not ok, "why": "unlocatable label must raise ValueError", "got": None if got is None else len(got), "err": err}
    if err is not None:
        return {"violates": True, "why": "unexpected exception", "err": err}
    exp = [last for last in range(L - 1, -1, -1) if pe <= last <= pb and last - nn + 1 >= 0]
    bad = []
    if len(got) != len(exp):
        bad.append(f"yielded {len(got)} results, expected {len(exp)}")
    for g, last in zip(got, exp):
        lo = last - nn + 1
        sl = data[lo:last + 1]
        if which == "full":
            ref = sl
        else:
            with np.errstate(all="ignore"):
                import warnings
                with warnings.catch_warnings():
                    warnings.simplefilter("ignore")
                    ref = (np.nansum if which == "sum" else np.nanmean)(sl, axis=0)
        if which == "full":
            val = np.asarray(g.transpose(dim, "y", "x").values)
        elif dim == "time":
            val = np.asarray(g.transpose("time", "y", "x").values).squeeze(0)
        else:
            val = np.asarray(g.transpose("y", "x").values)
        if val.shape != ref.shape or not np.allclose(val, ref, equal_nan=True):
            bad.append(f"window ending at {last}: wrong values")
        a = g.attrs
        if str(a.get("agg_start")) != str(da[dim].to_index()[lo]) or str(a.get("agg_stop")) != str(da[dim].to_index()[last]) \
                or a.get("agg_n") != nn:
            bad.append(f"window ending at {last}: attrs {a}")
        if which != "full" and dim == "time":
            if "time" not in g.dims or pd.Timestamp(g.time.values[0]) != coords[last]:
                bad.append(f"window ending at {last}: time stamp")
    return {"violates": bool(bad), "bad": bad[:5], "n_got": len(got), "n_exp": len(exp)}


# ------------------------------------------------------------------ C15
def _pearson_meanfill(vals):
    """vals: list with None for missing. Definition from the property statement."""
    x = np.array([np.nan if v is None else float(v) for v in vals], dtype="float64")
    X, Y = x[:-1].copy(), x[1:].copy()
    pair = ~np.isnan(X) & ~np.isnan(Y)
    if not pair.any() or np.isnan(X).all() or np.isnan(Y).all():
        return 0.0
    X[np.isnan(X)] = np.nanmean(X)
    Y[np.isnan(Y)] = np.nanmean(Y)
    sx, sy = X.std(), Y.std()
    if sx == 0 or sy == 0:
        return 0.0
    return float(((X - X.mean()) * (Y - Y.mean())).mean() / (sx * sy))


def _c15_ladder(data):
    out = [list(data)]
    for off in (3000, 9000, 30000):
        for m in (3, 20):
            out.append([None if v is None else off + (int(v) * 7 + i * i) % m for i, v in enumerate(data)])
    return out


def c15_autocorr(kind, data, nodata=None, data2=None, layout=None):
    from hdc.algo.ops.autocorr import autocorr_1d, autocorr, autocorr_tyx
    ref = _pearson_meanfill(data)
    out = {}
    if kind == "accessor":
        import xarray as xr
        import hdc.algo  # noqa
        if nodata is not None:
            p0 = np.array([nodata if v is None else v for v in data], dtype="int16")
            attrs = {"nodata": nodata}
        else:
            p0 = np.array([np.nan if v is None else v for v in data], dtype="float32")
            attrs = {}
        if layout == "tyx":
            da = xr.DataArray(p0.reshape(-1, 1, 1), dims=("time", "y", "x"), attrs=attrs)
        else:
            da = xr.DataArray(p0.reshape(1, 1, -1), dims=("y", "x", "time"), attrs=attrs)
        try:
            got = float(np.asarray(da.hdc.algo.autocorr().values).reshape(-1)[0])
        except Exception as e:  # noqa
            return {"violates": True, "raised": f"{type(e).__name__}: {e}"[:200]}
        return {"violates": not (abs(got - ref) <= 1e-5 * max(1.0, abs(ref))), "got": got, "expected": ref}
    if kind == "int1d":
        arr = np.array([nodata if v is None else v for v in data], dtype="int16")
        got = [float(autocorr_1d(arr, nodata))]
        refs = [ref]
    elif kind == "float1d":
        arr = np.array([np.nan if v is None else v for v in data], dtype="float64")
        got = [float(autocorr_1d(arr))]
        refs = [ref]
    elif kind == "float1d32":
        # single-precision record: the witness itself, then the same gap pattern with the witness' values folded into a
        # small amplitude on top of a large offset (raw sensor counts) - every value is an integer a float32 holds exactly
        got, refs = [], []
        for series in _c15_ladder(data):
            arr = np.array([np.nan if v is None else v for v in series], dtype="float32")
            got.append(float(autocorr_1d(arr)))
            refs.append(_pearson_meanfill(series))
    else:
        if nodata is not None:
            p0 = np.array([nodata if v is None else v for v in data], dtype="int16")
            p1 = np.array(data2, dtype="int16")
        else:
            p0 = np.array([np.nan if v is None else v for v in data], dtype="float32")
            p1 = np.array(data2, dtype="float32")
        def run(p0, p1):
            if kind == "yxt":
                cube = np.stack([p0, p1]).reshape(1, 2, -1)
                return autocorr(cube, nodata) if nodata is not None else autocorr(cube)
            cube = np.stack([p0, p1], axis=1).reshape(-1, 1, 2)
            return autocorr_tyx(cube, nodata) if nodata is not None else autocorr_tyx(cube)
        res = run(p0, p1)
        got = [float(res[0, 0]), float(res[0, 1])]
        refs = [ref, _pearson_meanfill(data2)]
        if nodata is None:
            # single-precision cube: the small-amplitude / large-offset ladder of float1d32
            for s0, s1 in list(zip(_c15_ladder(data), _c15_ladder(data2)))[1:]:
                r2 = run(np.array([np.nan if v is None else v for v in s0], dtype="float32"), np.array(s1, dtype="float32"))
                got += [float(r2[0, 0]), float(r2[0, 1])]
                refs += [_pearson_meanfill(s0), _pearson_meanfill(s1)]
    bad = [(g, r) for g, r in zip(got, refs) if not (abs(g - r) <= 1e-5 * max(1.0, abs(r)))]
    return {"violates": bool(bad), "got": got, "expected": refs}


# ------------------------------------------------------------------ C16
def c16_do_mean(kind, dtype=None, pixels=None, zones=None, nz=None, nodata=None, z_nodata=None, n=None, s=None, p=None, acc=None):
    from hdc.algo.ops.zonal import do_mean
    kw = {} if dtype is None else {"out_dtype": np.dtype(dtype).type}
    out_dt = np.dtype(dtype or "float32")
    if kind == "exact":
        px = np.array(pixels, dtype="int16")
        zs = np.array(zones, dtype="uint8" if 0 <= z_nodata <= 255 else "int16")
        res = do_mean(px, zs, nz, nodata, z_nodata, **kw)
        bad = []
        for t in range(px.shape[0]):
            for k in range(nz):
                sel = (zs == k) & (px[t] != nodata)
                cnt = int(sel.sum())
                if int(res[t, k, 1]) != cnt:
                    bad.append((t, k, "count", float(res[t, k, 1]), cnt))
                if cnt == 0:
                    if not np.isnan(res[t, k, 0]):
                        bad.append((t, k, "empty zone must be NaN", float(res[t, k, 0])))
                else:
                    ref = px[t][sel].astype("float64").mean()
                    if not np.isfinite(res[t, k, 0]) or abs(float(res[t, k, 0]) - ref) > 1e-6 * max(1.0, abs(ref)):
                        bad.append((t, k, "mean", float(res[t, k, 0]), float(ref)))
        if str(res.dtype) != str(out_dt):
            bad.append(("dtype", str(res.dtype)))
        return {"violates": bool(bad), "bad": bad[:5]}
    if kind == "count":
        # one zone with n+2 valid pixels of value 3: count must be n+2, mean 3
        npx = int(n) + 2
        px = np.full((1, 1, npx), 3, dtype="int16")
        zs = np.zeros((1, npx), dtype="uint8")
        res = do_mean(px, zs, 1, -9999, 255, **kw)
        eps = float(np.finfo(out_dt).eps)
        ok = abs(float(res[0, 0, 1]) - npx) <= eps * npx and abs(float(res[0, 0, 0]) - 3.0) <= 4 * eps * 3.0
        return {"violates": not ok, "count": float(res[0, 0, 1]), "expected_count": npx, "mean": float(res[0, 0, 0])}
    if kind == "sum":
        # reach a partial sum near |s| with pixels of +-32767 then add p: mean must be accurate to output precision
        big = 32767 if s >= 0 else -32767
        k = max(1, min(int(abs(s)) // 32767, 25_000_000))
        vals = np.full(k + 1, big, dtype="int16")
        vals[-1] = int(p)
        px = vals.reshape(1, 1, -1)
        zs = np.zeros((1, k + 1), dtype="uint8")
        res = do_mean(px, zs, 1, -9999, 255, **kw)
        ref = vals.astype("float64").mean()
        eps = float(np.finfo(out_dt).eps)
        ok = abs(float(res[0, 0, 0]) - ref) <= 4 * eps * abs(ref) and float(res[0, 0, 1]) == k + 1 or \
            (abs(float(res[0, 0, 0]) - ref) <= 4 * eps * abs(ref) and abs(float(res[0, 0, 1]) - (k + 1)) <= eps * (k + 1))
        return {"violates": not ok, "mean": float(res[0, 0, 0]), "expected": float(ref), "count": float(res[0, 0, 1]), "pixels": k + 1}
    return {"violates": False}


def c16_accessor(zone_dtype, zones, z_nodata, pixels, nodata, nz):
    """zonal.mean through the accessor for a zone raster of the given integer dtype: the witness raster, then a larger raster of the
    same dtype with the same zone nodata; per zone the NumPy masked mean / count, empty zones NaN / 0."""
    import xarray as xr
    import hdc.algo  # noqa
    rng = np.random.default_rng(16)
    bad = []
    info = np.iinfo(zone_dtype)
    znd = int(z_nodata)
    if znd in (0, 1):
        znd = int(info.max)
    for R, Cn in ((1, 2), (6, 7)):
        zr = rng.integers(0, nz, size=(R, Cn)).astype(zone_dtype)
        zr[rng.random(size=zr.shape) < 0.4] = znd
        if (R, Cn) == (1, 2):
            zr = np.array(zones, dtype=zone_dtype)
            if not np.all((zr == int(z_nodata)) | (zr < nz)):
                zr = np.where((zr == int(z_nodata)) | (zr < nz), zr, np.array(z_nodata).astype(zone_dtype))
            use_nd = int(z_nodata)
        else:
            use_nd = znd
        T = 2
        px = rng.integers(-50, 200, size=(T, R, Cn)).astype("int16")
        px[px == nodata] += 1
        px[rng.random(size=px.shape) < 0.15] = nodata
        da = xr.DataArray(px, dims=("time", "y", "x"), coords={"time": [0, 1]}, attrs={"nodata": int(nodata)})
        zda = xr.DataArray(zr, dims=("y", "x"), attrs={"nodata": use_nd})
        try:
            res = da.hdc.zonal.mean(zda, list(range(nz)), dtype="float64").values
        except Exception as e:  # noqa
            return {"violates": True, "raised": f"{type(e).__name__}: {e}"[:200], "zone_dtype": zone_dtype, "z_nodata": use_nd}
        for t in range(T):
            for z in range(nz):
                m = (zr == z) & (zr != np.array(use_nd).astype(zone_dtype)) & (px[t] != nodata)
                cnt = int(m.sum())
                exp_mean = float(px[t][m].astype("float64").mean()) if cnt else float("nan")
                g_mean, g_cnt = float(res[t, z, 0]), float(res[t, z, 1])
                same_mean = (math.isnan(exp_mean) and math.isnan(g_mean)) or abs(g_mean - exp_mean) <= 1e-9 * max(1.0, abs(exp_mean))
                if not same_mean or g_cnt != cnt:
                    bad.append({"raster": [R, Cn], "t": t, "zone": z, "got": [g_mean, g_cnt], "expected": [exp_mean, cnt], "z_nodata": use_nd})
    return {"violates": bool(bad), "bad": bad[:4], "zone_dtype": zone_dtype}


# ------------------------------------------------------------------ C10
def _mk_reference(x):
    import scipy.stats as ss
    x = [float(v) for v in x]
    n = len(x)
    S = sum((x[j] > x[i]) - (x[j] < x[i]) for i in range(n - 1) for j in range(i + 1, n))
    tau = S / (n * (n - 1) / 2)
    from collections import Counter
    tp = sum(t * (t - 1) * (2 * t + 5) for t in Counter(x).values())
    var = (n * (n - 1) * (2 * n + 5) - tp) / 18
    if S > 0:
        z = (S - 1) / math.sqrt(var)
    elif S < 0:
        z = (S + 1) / math.sqrt(var)
    else:
        z = 0.0
    p = 2 * (1 - ss.norm.cdf(abs(z)))
    flag = 0
    if p < 0.05:
        flag = 1 if z > 0 else (-1 if z < 0 else 0)
    slopes = [(x[j] - x[i]) / (j - i) for i in range(n - 1) for j in range(i + 1, n)]
    return tau, p, float(np.median(slopes)), flag


def _c10_boundary_series():
    """Series whose continuity-corrected |Z| is as close as possible to the two-sided 5 % critical value, on either side of it:
    n steps with one tie group of t equal values and a prescribed S (reached from the sorted series by adjacent swaps of unequal
    neighbours, -2 each). The 40 closest from above and from below among n <= 120."""
    import scipy.stats as ss
    zc = float(ss.norm.ppf(0.975))
    cands = []
    for n in range(8, 121):
        for t in range(0, n - 1):
            tt = t if t >= 2 else 0
            if t == 1:
                continue
            var = (n * (n - 1) * (2 * n + 5) - tt * (tt - 1) * (2 * tt + 5)) / 18.0
            smax = n * (n - 1) // 2 - tt * (tt - 1) // 2
            s0 = int(math.floor(1 + zc * math.sqrt(var)))
            for S in (s0 - 1, s0, s0 + 1, s0 + 2):
                if S < 1 or S > smax or (smax - S) % 2:
                    continue
                cands.append(((S - 1) / math.sqrt(var) - zc, n, tt, S, smax))
    above = sorted([c for c in cands if c[0] > 0])[:40]
    below = sorted([c for c in cands if c[0] <= 0], key=lambda c: -c[0])[:40]
    out = []
    for dz, n, tt, S, smax in above + below:
        vals = list(range(1, n - tt + 2)) if tt else list(range(1, n + 1))
        if tt:
            mid = len(vals) // 2
            vals = vals[:mid] + [vals[mid]] * (tt - 1) + vals[mid:]
        vals = sorted(vals)[:n]
        cur = smax
        i = 0
        while cur > S:
            # bubble the largest remaining element to the front, one adjacent swap of unequal neighbours at a time
            moved = False
            for i in range(len(vals) - 1):
                if vals[i] < vals[i + 1]:
                    vals[i], vals[i + 1] = vals[i + 1], vals[i]
                    cur -= 2
                    moved = True
                    break
            if not moved:
                break
        if cur == S:
            out.append((vals, dz))
    return out


def c10_boundary():
    """The trend flag at the significance boundary: p < 0.05 <=> |Z| > ndtri(0.975) = 1.959964; series on both sides within 1e-3."""
    from hdc.algo.ops import stats
    bad = []
    cases = _c10_boundary_series()
    for vals, dz in cases:
        for sign in (1, -1):
            x = np.array([sign * v for v in vals], dtype="int16")
            got = stats.mann_kendall_trend_1d(x)
            ref = _mk_reference(list(x))
            if abs(ref[1] - 0.05) < 1e-12:
                continue
            if int(got[3]) != int(ref[3]) or abs(float(got[1]) - ref[1]) > 1e-6:
                bad.append({"n": len(vals), "z_minus_critical": dz, "sign": sign, "got": [float(g) for g in got], "expected": list(ref), "series": [int(v) for v in x]})
    return {"violates": bool(bad), "cases": len(cases), "bad": bad[:3]}


def c10_accessor(nodata):
    """mktrend through the accessor: ordinary pixels vs the reference; a pixel that is entirely nodata -> (nodata, nodata, nodata, -2)."""
    import xarray as xr
    import pandas as pd
    import hdc.algo  # noqa
    rng = np.random.default_rng(5)
    T = 12
    bad = []
    for dtype in ("int16", "float32"):
        cube = rng.integers(1, 200, size=(T, 2, 2)).astype(dtype)
        attrs = {}
        if nodata is not None:
            cube[:, 0, 0] = nodata
            attrs = {"nodata": nodata}
        da = xr.DataArray(cube, dims=("time", "y", "x"), coords={"time": pd.date_range("2000-01-01", periods=T)}, attrs=attrs)
        try:
            res = da.hdc.algo.mktrend()
        except Exception as e:  # noqa
            return {"violates": True, "raised": f"{type(e).__name__}: {e}"[:200]}
        for (r, c) in ((0, 0), (0, 1), (1, 0), (1, 1)):
            got = [float(res[k].values[r, c]) for k in ("tau", "pvalue", "slope", "trend")]
            if nodata is not None and (r, c) == (0, 0):
                nd32 = float(np.float32(nodata))
                if not (got[0] == nd32 and got[1] == nd32 and got[2] == nd32 and got[3] == -2):
                    bad.append({"dtype": dtype, "pixel": "all nodata", "got": got, "expected": [nd32, nd32, nd32, -2]})
                continue
            ref = _mk_reference(list(cube[:, r, c]))
            if any(abs(g - x) > 1e-5 * max(1.0, abs(x)) for g, x in zip(got, ref)):
                bad.append({"dtype": dtype, "pixel": [r, c], "got": got, "expected": list(ref)})
    return {"violates": bool(bad), "bad": bad[:3]}


def c10_mk(kind, data, nodata=None):
    if kind == "accessor":
        return c10_accessor(nodata)
    if kind == "boundary":
        return c10_boundary()
    from hdc.algo.ops import stats
    x = np.array(data, dtype="int16")
    if kind in ("parts", "1d"):
        got = stats.mann_kendall_trend_1d(x)
    elif kind == "gu":
        got = stats._mann_kendall_trend_gu(x)
    else:
        got = stats._mann_kendall_trend_gu_nd(x, nodata)
    got = [float(np.asarray(g).reshape(-1)[0]) for g in got]
    if kind == "gu_nd" and all(v == nodata for v in data):
        nd32 = float(np.float32(nodata))
        ok = got[0] == nd32 and got[1] == nd32 and got[2] == nd32 and got[3] == -2
        return {"violates": not ok, "got": got}
    ref = _mk_reference(data)
    bad = []
    for name, g, r in zip(("tau", "p", "slope", "flag"), got, ref):
        if not (abs(g - r) <= 1e-5 * max(1.0, abs(r))):
            # a p-value within rounding of 0.05 may flip the flag
            if name == "flag" and abs(ref[1] - 0.05) < 1e-9:
                continue
            bad.append((name, g, r))
    return {"violates": bool(bad), "got": got, "expected": list(ref), "bad": bad}


# ------------------------------------------------------------------ smoothers (C02-C06)
def _pls(y, w, lam):
    n = len(y)
    D = np.diff(np.eye(n), 2, axis=0)
    A = np.diag(w) + lam * D.T @ D
    return np.linalg.solve(A, w * y)


def _valid(y, nodata):
    return ((y != nodata) & np.isfinite(y)).astype("float64")


def _asym(y, w, lam, p, z0=None, passes=10):
    z = np.zeros(len(y)) if z0 is None else z0.copy()
    ww = w.copy()
    for _ in range(passes):
        ww = w * np.where(y > z, p, 1 - p)
        znew = _pls(y, ww, lam)
        if np.sum(np.abs(znew - z)) == 0:
            break
        z = znew
    return z, _pls(y, ww, lam)


def _rhe_match(out, z, tol=1e-6):
    """out equals half-even rounding of z, a unit of slack only where z sits on a rounding tie."""
    bad = []
    for i, (o, v) in enumerate(zip(out, z)):
        r = np.round(v)
        if o == r:
            continue
        frac = abs(v - np.floor(v) - 0.5)
        if frac < tol and abs(o - v) <= 0.5 + tol:
            continue
        bad.append((i, float(o), float(v)))
    return bad


def _ref_fixed(y, lam, nodata, p):
    w = _valid(y, nodata)
    if lam == 0 or w.sum() < 2:
        return None
    yy = np.where(w > 0, y, 0.0)
    if p is None:
        return _pls(yy, w, lam)
    return _asym(yy, w, lam, p)[1]


def _series(data, nodata):
    return np.array([nodata if v is None else v for v in data], dtype="float64")


def c03_fixed(kernel, data, nodata, lmda=None, p=None, lmda0=False, mode=None, sg=None, s=None):
    import hdc.algo  # noqa
    from hdc.algo import ops
    rng = np.random.default_rng(7)
    base = _series(data, nodata)
    trials = []
    lam0 = 0.0 if lmda0 else (float(lmda) if lmda is not None else None)
    if kernel == "whits":
        if mode == "sg":
            lam0 = 10.0 ** float(sg)
        elif mode == "sg-inf":
            lam0 = 0.0
        else:
            lam0 = float(s)
    lams = [lam0] if lam0 == 0 else [lam0, 0.5, 10.0, 1000.0]
    ps = [None] if p is None else [float(p), 0.1, 0.9, 0.99]
    for k, (lam, pp) in enumerate([(a, b) for a in lams for b in ps]):
        y = base.copy()
        if k > 0:
            obs = y != nodata
            y[obs] = np.round(y[obs] * rng.choice([1, 10, 100]) + rng.integers(-50, 50, obs.sum()))
            y[obs & (y == nodata)] += 1
        trials.append((y, lam, pp))
    for y, lam, pp in trials:
        if not (0 < lam < 1e9) and lam != 0:
            continue
        if kernel == "whits":
            import xarray as xr
            da = xr.DataArray(y.astype("int16").reshape(-1, 1, 1), dims=("time", "y", "x"), attrs={"nodata": nodata})
            kw = {}
            if mode in ("sg", "sg-inf"):
                kw["sg"] = xr.DataArray(np.array([[np.log10(lam) if lam > 0 else -np.inf]]), dims=("y", "x"))
            else:
                kw["s"] = lam
            if pp is not None:
                kw["p"] = pp
            out = da.hdc.whit.whits(nodata, **kw).transpose("time", ...).values[:, 0, 0].astype("float64")
            y = y.astype("int16").astype("float64")
        elif kernel == "ws2dgu":
            out = ops.ws2dgu(y, lam, nodata).astype("float64")
        else:
            out = ops.ws2dpgu(y, lam, nodata, pp if pp is not None else 0.5).astype("float64")
        z = _ref_fixed(y, lam, nodata, pp if kernel != "ws2dgu" else None)
        if z is None:
            bad = [(i, float(o), float(v)) for i, (o, v) in enumerate(zip(out, y)) if o != v]
        else:
            if np.max(np.abs(z)) > 32000:
                continue
            bad = _rhe_match(out, z)
        if bad:
            return {"violates": True, "y": y, "lam": lam, "p": pp, "bad": bad[:4], "out": out}
    if kernel == "ws2dpgu" or (kernel == "whits" and p is not None):
        # witness shaped after the candidate's path: a series on which the reweighting does not settle within 10 passes
        r = _nonconverging_witness(kernel, nodata)
        if r is not None:
            return r
    if kernel == "whits" and mode == "sg":
        r = _whits_sgrid_alignment(nodata, p)
        if r is not None:
            return r
    return {"violates": False, "trials": len(trials)}


def _nonconverging_witness(kernel, nodata, budget=400):
    from hdc.algo import ops
    rng = np.random.default_rng(11)
    found = 0
    for k in range(budget):
        n = int(rng.integers(8, 15))
        y = np.round(rng.gamma(0.4, 400.0, n) + 10).astype("float64")
        y[y == nodata] += 1
        pp = float(rng.choice([0.99, 0.999, 0.01, 0.001]))
        lam = float(rng.choice([100.0, 1000.0, 10.0]))
        w = np.ones(n)
        z = np.zeros(n)
        settled = False
        for _ in range(10):
            ww = w * np.where(y > z, pp, 1 - pp)
            znew = _pls(y, ww, lam)
            if np.sum(np.abs(znew - z)) == 0:
                settled = True
                break
            z = znew
        if settled:
            continue
        found += 1
        zf = _pls(y, ww, lam)
        if np.max(np.abs(zf)) > 32000:
            continue
        out = ops.ws2dpgu(y, lam, nodata, pp).astype("float64")
        bad = _rhe_match(out, zf)
        if bad:
            return {"violates": True, "why": "reweighting not settled after 10 passes", "y": y, "lam": lam, "p": pp, "bad": bad[:4]}
        if found >= 25:
            break
    return None


def _whits_sgrid_alignment(nodata, p):
    """Per-pixel sgrid given with dims in another order than the cube's: every pixel must be smoothed with ITS lambda."""
    import xarray as xr
    import hdc.algo  # noqa
    rng = np.random.default_rng(5)
    T, Y, X = 8, 2, 3
    cube = np.round(rng.normal(500, 150, (T, Y, X))).astype("int16")
    sg_yx = np.array([[-1.0, 0.0, 1.0], [2.0, 3.0, -np.inf]])
    da = xr.DataArray(cube, dims=("time", "y", "x"), attrs={"nodata": nodata})
    sg = xr.DataArray(sg_yx.T.copy(), dims=("x", "y"))
    kw = {"sg": sg}
    if p is not None:
        kw["p"] = float(p)
    try:
        res = da.hdc.whit.whits(nodata, **kw).transpose("time", "y", "x").values
    except Exception as e:  # noqa
        return {"violates": True, "why": f"whits with a transposed sgrid raised {type(e).__name__}: {e}"[:300]}
    for yy in range(Y):
        for xx in range(X):
            lam = 10.0 ** sg_yx[yy, xx] if np.isfinite(sg_yx[yy, xx]) else 0.0
            series = cube[:, yy, xx].astype("float64")
            z = _ref_fixed(series, lam, nodata, None if p is None else float(p))
            out = res[:, yy, xx].astype("float64")
            bad = [(i, o, v) for i, (o, v) in enumerate(zip(out, series)) if o != v] if z is None else _rhe_match(out, z)
            if bad:
                return {"violates": True, "why": f"pixel ({yy},{xx}) not smoothed with its own lambda 10**{sg_yx[yy, xx]}", "bad": bad[:3]}
    return None


def _run_smoother(kernel, y, nodata, lam=None, p=None, llas=None, robust=False, lc=None):
    from hdc.algo import ops
    f = getattr(ops, kernel)
    if kernel == "ws2dgu":
        return f(y, lam, nodata).astype("float64"), None
    if kernel == "ws2dpgu":
        return f(y, lam, nodata, p).astype("float64"), None
    if kernel == "ws2doptv":
        o, l = f(y, nodata, llas)
    elif kernel == "ws2doptvp":
        o, l = f(y, nodata, p, llas)
    elif kernel == "ws2doptvplc":
        o, l = f(y.astype("int16"), nodata, p, lc)
    elif kernel == "ws2dwcv":
        o, l = f(y, nodata, llas, robust)
    else:
        o, l = f(y, nodata, p, llas, robust)
    return np.asarray(o).astype("float64"), float(l)


def c02_placeholder(kernel, data, nd1, nd2, special=None, robust=False, lc=0.7, grid=3, lam=1.0, p=0.5, l0=0.0, lstep=1.0, huge=False):
    rng = np.random.default_rng(3)
    mix = None
    if special and special.startswith("mix"):
        mix, special = (1 if special.startswith("mix-") else 0), special.split("-", 1)[1]
    sp = {None: None, "nan": np.nan, "inf": np.inf, "-inf": -np.inf}[special]
    valid = [v is not None for v in data]
    nmin = 5 if kernel in ("ws2dwcv", "ws2dwcvp") else 2
    trials = []
    lam = float(lam) if 0 < float(lam) < 1e8 else 10.0
    p = float(p) if 0 < float(p) < 1 else 0.9
    l0, lstep = float(l0), float(lstep)
    if not (-4 <= l0 <= 4 and 0.05 <= lstep <= 3):
        l0, lstep = -1.0, 1.0
    grids = [np.array([l0 + k * lstep for k in range(int(grid))]), np.arange(-2, 2.2, 0.4), np.arange(-1.8, 4.2, 0.2)]
    base = np.array([0 if v is None else float(v) for v in data])
    # given length first, then the same gap layout stretched over a noisy seasonal series
    series = [(base, valid)]
    for k in range(3):
        series.append((np.round(base * rng.choice([1, 7, 50]) + rng.integers(-300, 300, len(base))), valid))
    for L in (12, 24, 36):
        t = np.arange(L)
        s = np.round(3000 + 2500 * np.sin(2 * np.pi * t / 12.0) + rng.normal(0, 300, L))
        v2 = [valid[int(i * len(valid) / L)] for i in range(L)]
        series.append((s, v2))
    placeholders = [(int(nd1), int(nd2)), (-3000, 1500), (0, 32767), (-3000, 9999)]
    if huge:
        # placeholders near the float64 limit (GDAL's Float64 'lowest' / 'max'), float32 max and 1e200: their squares overflow
        fmax = float(np.finfo("float64").max)
        placeholders = [(-3000, -fmax), (-3000, fmax), (-3000, -1e200), (-3000, float(np.finfo("float32").max))] + placeholders[:1]
    for (vals, vmask), (a, b), g in [(s_, p_, g_) for s_ in series for p_ in placeholders[:2] for g_ in grids[:2]] + \
            [(series[-1], placeholders[2], grids[2]), (series[-2], placeholders[3], grids[2])]:
        vmask = np.array(vmask)
        if special is None and (np.any(vals[vmask] == a) or np.any(vals[vmask] == b)):
            continue
        if kernel == "ws2doptvplc" and (abs(a) > 32767 or abs(b) > 32767):
            continue
        y1 = np.where(vmask, vals, a).astype("float64")
        y2 = np.where(vmask, vals, b if sp is None else sp).astype("float64")
        if mix is not None:
            k = 0
            for i in range(len(y2)):
                if not vmask[i]:
                    y2[i] = sp if k % 2 == mix else b
                    k += 1
        kw = dict(lam=lam, p=p, llas=g.astype("float64"), robust=bool(robust), lc=float(lc))
        try:
            o1, l1 = _run_smoother(kernel, y1, a, **kw)
            o2, l2 = _run_smoother(kernel, y2, b, **kw)
        except Exception as e:  # noqa
            return {"violates": True, "why": f"raised {type(e).__name__}: {e}"[:200], "y1": y1, "y2": y2}
        if vmask.sum() < nmin:
            ok = np.array_equal(o1, y1.astype("int16").astype("float64")) and (l1 is None or l1 == 0)
            if not ok:
                return {"violates": True, "why": "too few valid cells must be returned unchanged with lambda 0", "y": y1, "out": o1, "lopt": l1}
            fin = np.isfinite(y2)
            ok2 = np.array_equal(np.asarray(o2)[fin], y2[fin].astype("int16").astype("float64")) and (l2 is None or l2 == 0)
            if not ok2:
                return {"violates": True, "why": "too few valid cells (missing cells NaN / inf): finite cells must be returned unchanged, lambda 0",
                        "y": y2, "out": o2, "lopt": l2}
            continue
        if np.max(np.abs(o1)) > 32000:
            continue
        same_l = (l1 is None) or (l1 == l2) or (l1 and abs(l1 - l2) <= 1e-9 * abs(l1))
        if not np.array_equal(o1, o2) or not same_l:
            return {"violates": True, "why": "result depends on the placeholder", "y1": y1, "y2": y2, "nd": [a, b if sp is None else special],
                    "out1": o1, "out2": o2, "lopt": [l1, l2], "llas": g}
    return {"violates": False}


# ------------------------------------------------------------------ C04
def _vcurve(y, w, llas, p, warm):
    fits, pens = [], []
    z = np.zeros(len(y))
    for l in llas:
        lam = 10.0 ** l
        if p is None:
            z = _pls(y, w, lam)
        else:
            z, _ = _asym(y, w, lam, p, z0=(z if warm else None))
        fits.append(np.log(np.sum((w * (y - z)) ** 2)))
        pens.append(np.log(np.sum(np.diff(z, 2) ** 2)))
    fits, pens = np.array(fits), np.array(pens)
    step = llas[1] - llas[0]
    v = np.sqrt(np.diff(fits) ** 2 + np.diff(pens) ** 2) / (np.log(10) * step)
    mids = (llas[:-1] + llas[1:]) / 2
    return v, mids


def _check_vcurve(kernel, y, nodata, p, llas, lc=None):
    from hdc.algo import ops
    out, lopt = _run_smoother(kernel, y, nodata, p=p, llas=llas, lc=lc)
    w = (y != nodata).astype("float64")
    if w.sum() < 2:
        return None
    yy = np.where(w > 0, y, 0.0)
    pp = None if kernel == "ws2doptv" else p
    problems = []
    ok_any = False
    best = None
    for warm in ((True,) if pp is None else (True, False)):
        with np.errstate(all="ignore"):
            v, mids = _vcurve(yy, w, llas, pp, warm)
        if not np.all(np.isfinite(v)):
            return None
        k = np.argmin(np.abs(10.0 ** mids - lopt))
        is_mid = abs(10.0 ** mids[k] - lopt) <= 1e-9 * lopt
        minimal = v[k] <= v.min() * (1 + 1e-9) + 1e-12
        best = (float(v[k]), float(v.min()), float(mids[k]), float(mids[np.argmin(v)]))
        if is_mid and minimal:
            ok_any = True
    if not ok_any:
        problems.append(f"lambda {lopt} is not a V-minimising grid midpoint: (V at reported, min V, log10 reported, log10 best) = {best}")
    if pp is None:
        band = ops.ws2dgu(y, lopt, nodata)
    else:
        band = ops.ws2dpgu(y, lopt, nodata, pp)
    if np.max(np.abs(band.astype("float64"))) < 32000 and not np.array_equal(np.asarray(out), band.astype("float64")):
        problems.append("band differs from the fixed-lambda smoother at the reported lambda")
    return problems


def c04_vcurve(kernel, data, nodata, p=None, l0=None, lstep=None, grid=None, lc=None, mode=None, name=None, series=None):
    rng = np.random.default_rng(17)
    valid = np.array([v is not None for v in data])
    base = np.array([0 if v is None else float(v) for v in data])
    p = float(p) if p is not None and 0 < float(p) < 1 else 0.9
    if kernel == "whitsvc":
        return _c04_accessor(data, nodata, p if mode != "nop" else None, mode, name)
    grids = []
    if kernel == "ws2doptvplc":
        lcv = float("nan") if lc == "nan" else float(lc)
        doc = np.arange(-2, 1.2, 0.2) if (lcv == lcv and lcv > 0.5) else np.arange(0, 3.2, 0.2)
        grids = [doc]
    else:
        if l0 is not None and -4 <= float(l0) <= 4 and 0.05 <= float(lstep) <= 3:
            grids.append(np.array([float(l0) + k * float(lstep) for k in range(int(grid))]))
        grids += [np.arange(-2, 4.2, 0.2), np.arange(-2, 2.0, 1.0), np.arange(-1, 3.5, 0.5)]
    series = [(base, valid)]
    for L in (12, 24, 36, 36, 48):
        t = np.arange(L)
        s = np.round(3000 + 2500 * np.sin(2 * np.pi * t / 12.0) + rng.normal(0, 400, L))
        v2 = np.array([valid[int(i * len(valid) / L)] for i in range(L)])
        series.append((s, v2))
    ps = [p, 0.5, 0.9] if kernel != "ws2doptv" else [None]
    for (vals, vm) in series:
        if np.any(vals[vm] == nodata):
            continue
        y = np.where(vm, vals, nodata).astype("float64")
        for g in grids:
            for pp in ps:
                try:
                    pr = _check_vcurve(kernel, y, nodata, pp, g.astype("float64"), lc=(float("nan") if lc == "nan" else lc))
                except Exception as e:  # noqa
                    return {"violates": True, "why": f"raised {type(e).__name__}: {e}"[:200]}
                if pr:
                    return {"violates": True, "why": pr, "y": y, "llas": g, "p": pp, "lc": lc}
    return {"violates": False}


def _c04_accessor(data, nodata, p, mode, name):
    import xarray as xr
    import hdc.algo  # noqa
    from hdc.algo import ops
    rng = np.random.default_rng(23)
    T = 24
    t = np.arange(T)
    cube = np.round(3000 + 2500 * np.sin(2 * np.pi * t / 12.0)[:, None, None] + rng.normal(0, 400, (T, 2, 2))).astype("int16")
    cube[3, 0, 0] = nodata
    da = xr.DataArray(cube, dims=("time", "y", "x"), attrs={"nodata": nodata}, name=name)
    srange = np.arange(-2, 4.2, 0.2)
    problems = []
    lc0 = xr.DataArray(np.array([[0.7, 0.3], [0.55, 0.45]]), dims=("y", "x"))
    variants = [("lc stored as (y, x)", lc0), ("lc stored as (x, y)", lc0.transpose("x", "y")),
                ("lc float32", lc0.astype("float32"))] if mode == "lc" else [("", None)]
    for vname, lcv in variants:
        for pp in ([None] if mode == "nop" else [p, 0.5, 0.9, 0.3]):
            kw = {}
            if mode == "lc":
                kw = {"lc": lcv, "p": pp}
            else:
                kw = {"srange": srange}
                if pp is not None:
                    kw["p"] = pp
            try:
                ds = da.hdc.whit.whitsvc(nodata, **kw)
            except Exception as e:  # noqa
                return {"violates": True, "why": f"whitsvc {vname} raised {type(e).__name__}: {e}"[:300]}
            want = name or "band"
            if set(ds.data_vars) != {want, "sgrid"}:
                return {"violates": True, "why": f"dataset variables {list(ds.data_vars)}"}
            if str(ds["sgrid"].dtype) != "float32":
                return {"violates": True, "why": f"sgrid dtype {ds['sgrid'].dtype}"}
            band = ds[want].transpose("time", "y", "x").values
            sgrid = ds["sgrid"].transpose("y", "x").values
            for yy in range(2):
                for xx in range(2):
                    series = cube[:, yy, xx].astype("float64")
                    sg = float(sgrid[yy, xx])
                    if mode == "lc":
                        o, l = ops.ws2doptvplc(cube[:, yy, xx], nodata, pp, float(lc0.values[yy, xx]))
                    elif pp is None:
                        o, l = ops.ws2doptv(series, nodata, srange)
                    else:
                        o, l = ops.ws2doptvp(series, nodata, pp, srange)
                    if not np.array_equal(band[:, yy, xx], o) or abs(sg - np.float32(np.log10(l))) > 1e-6:
                        problems.append(f"pixel ({yy},{xx}) p={pp} {vname}: band/sgrid differ from the kernel selected by (lc, p)")
    return {"violates": bool(problems), "why": problems[:3]}


# ------------------------------------------------------------------ C05
def _gcv_scores(y, w, llas):
    m = len(y)
    eigs = -2 + 2 * np.cos(np.arange(m) * np.pi / m)
    eigs[0] = 1e-15
    n = w.sum()
    out = []
    for l in llas:
        lam = 10.0 ** l
        z = _pls(y, w, lam)
        trh = np.sum(w / (w + lam * eigs ** 2))
        wsse = np.sum(w * (y - z) ** 2)
        out.append(wsse / (n * (1 - trh / n) ** 2))
    return np.array(out)


def c05_gcv(kernel, data=None, nodata=-3000, p=None, l0=None, lstep=None, grid=None, robust=False, shape=None, mode=None, detail=None):
    from hdc.algo import ops
    rng = np.random.default_rng(29)
    if kernel == "whitswcv":
        return _c05_accessor(mode, robust, p)
    p = float(p) if p is not None and 0 < float(p) < 1 else 0.9
    if robust:
        # degenerate residual distributions: constant, exactly linear, flat with a few spikes
        probs = []
        g = np.arange(-1.8, 4.2, 0.2)
        shapes = {"constant": np.full(24, 1200.0), "linear": np.arange(10, 30, 2).astype("float64") * 10,
                  "linear_long": 500.0 + 25.0 * np.arange(30), "flat_spikes": np.array([1000.0] * 30)}
        shapes["flat_spikes"][[5, 17]] = [1900.0, 400.0]
        for nm, y in shapes.items():
            for kn in ("ws2dwcv", "ws2dwcvp"):
                o, l = _run_smoother(kn, y.copy(), nodata, p=p, llas=g, robust=True)
                if not np.isfinite(l) or (np.all(o == 0) and np.any(y != 0)) or np.max(np.abs(o - y)) > 0.5 * (np.ptp(y) + 1) + 1:
                    probs.append(f"{kn} robust on {nm} series: lambda={l}, output[:6]={o[:6].tolist()}")
        return {"violates": bool(probs), "why": probs[:4]}
    valid = np.array([v is not None for v in data])
    grids = []
    if l0 is not None and -4 <= float(l0) <= 4 and 0.05 <= float(lstep) <= 3:
        grids.append(np.array([float(l0) + k * float(lstep) for k in range(int(grid))]))
    grids += [np.arange(-1.8, 4.2, 0.2), np.arange(-2, 3.0, 1.0)]
    series = []
    for L in (12, 24, 36, 36, 48):
        t = np.arange(L)
        s = np.round(3000 + 2500 * np.sin(2 * np.pi * t / 12.0) + rng.normal(0, 400, L))
        vm = np.array([valid[int(i * len(valid) / L)] for i in range(L)])
        series.append((s, vm))
    for s, vm in series:
        y = np.where(vm, s, nodata).astype("float64")
        w = vm.astype("float64")
        yy = np.where(vm, y, 0.0)
        for g in grids:
            for pp in ([None] if kernel == "ws2dwcv" else [p, 0.5]):
                o, l = _run_smoother(kernel, y, nodata, p=pp, llas=g.astype("float64"), robust=False)
                sc = _gcv_scores(yy, w, g)
                k = np.argmin(np.abs(10.0 ** g - l))
                probs = []
                if abs(10.0 ** g[k] - l) > 1e-9 * l:
                    probs.append(f"lambda {l} is not in 10**srange")
                elif sc[k] > sc.min() * (1 + 1e-9):
                    probs.append(f"lambda 10**{g[k]:.2f} has GCV {sc[k]:.6g}, grid minimum {sc.min():.6g} at 10**{g[np.argmin(sc)]:.2f}")
                band = ops.ws2dgu(y, l, nodata) if pp is None else ops.ws2dpgu(y, l, nodata, pp)
                if not np.array_equal(o, band.astype("float64")):
                    probs.append("band differs from the fixed-lambda smoother at the reported lambda")
                if probs:
                    return {"violates": True, "why": probs, "y": y, "llas": g, "p": pp}
    return {"violates": False}


def _c05_accessor(mode, robust, p=None):
    import xarray as xr
    import hdc.algo  # noqa
    from hdc.algo import ops
    rng = np.random.default_rng(31)
    T = 24
    t = np.arange(T)
    cube = np.round(3000 + 2500 * np.sin(2 * np.pi * t / 12.0)[:, None, None] + rng.normal(0, 400, (T, 1, 2))).astype("int16")
    da = xr.DataArray(cube, dims=("time", "y", "x"), attrs={"nodata": -3000})
    rb = True if robust is None else robust
    g = np.arange(-1.8, 4.2, 0.2)
    probs = []
    ps = [None]
    if mode == "p":
        ps = [0.9, 0.5, 0.1]
        try:
            if p is not None and 0 < float(p) < 1 and float(p) not in ps:
                ps.insert(0, float(p))
        except (TypeError, ValueError):
            pass
    for pp in ps:
        kw = {}
        if mode == "p":
            kw["p"] = pp
        if robust is not None:
            kw["robust"] = robust
        ds = da.hdc.whit.whitswcv(-3000, **kw)
        if set(ds.data_vars) != {"band", "sgrid"} or str(ds["sgrid"].dtype) != "float32":
            probs.append(f"dataset {list(ds.data_vars)} / sgrid dtype {ds['sgrid'].dtype}")
            continue
        band = ds["band"].transpose("time", "y", "x").values
        for xx in range(2):
            y = cube[:, 0, xx].astype("float64")
            o, l = (ops.ws2dwcvp(y, -3000, pp, g, rb) if mode == "p" else ops.ws2dwcv(y, -3000, g, rb))
            if not np.array_equal(band[:, 0, xx], o) or abs(float(ds["sgrid"].values[0, xx]) - np.float32(np.log10(l))) > 1e-6:
                probs.append(f"pixel {xx} p={pp}: accessor result differs from the kernel with the documented defaults")
    return {"violates": bool(probs), "why": probs}


# ------------------------------------------------------------------ C06
def c06_relations(kind, y=None, w=None, lam=None, c=0, a=0, b=0, kernel=None, relation=None, data=None, nodata=-3000, p=0.9,
                  l0=None, lstep=None, grid=3, robust=False):
    from hdc.algo.ops.ws2d import ws2d
    rng = np.random.default_rng(37)
    if kind == "l1":
        y = np.array(unjson(y), dtype="float64")
        w = np.array(unjson(w), dtype="float64")
        lam, c, a, b = float(lam), float(c), float(a), float(b)
        n = len(y)
        z0 = ws2d(y, lam, w)
        scale = max(1.0, float(np.max(np.abs(z0))), abs(c))
        probs = []
        if not (np.max(np.abs(ws2d(y + c, lam, w) - (z0 + c))) <= 1e-6 * scale):
            probs.append("offset")
        if not (np.max(np.abs(ws2d(y[::-1].copy(), lam, w[::-1].copy()) - z0[::-1])) <= 1e-6 * scale):
            probs.append("reversal")
        line = a + b * np.arange(n)
        yl = np.where(w > 0, line, y)
        if not (np.max(np.abs(ws2d(yl, lam, w) - line)) <= 1e-6 * max(1.0, float(np.max(np.abs(line))))):
            probs.append("linear")
        ym = np.where(w > 0, y, y + 1234.5)
        if not (np.max(np.abs(ws2d(ym, lam, w) - z0)) <= 1e-6 * scale):
            probs.append("zero-weight cells")
        return {"violates": bool(probs), "why": probs}
    valid = np.array([v is not None for v in data])
    p = float(p) if 0 < float(p) < 1 else 0.9
    lam = float(lam) if lam is not None and 1e-3 <= float(lam) <= 1e6 else 10.0
    grids = []
    if l0 is not None and -4 <= float(l0) <= 4 and 0.05 <= float(lstep) <= 3:
        grids.append(np.array([float(l0) + k * float(lstep) for k in range(int(grid))]))
    grids += [np.arange(-2, 4.2, 0.2), np.arange(-1.8, 4.2, 0.4)]
    series = []
    base = np.array([0 if v is None else float(v) for v in data])
    series.append((base, valid))
    for L in (12, 24, 36, 36):
        t = np.arange(L)
        s = np.round(3000 + 2500 * np.sin(2 * np.pi * t / 12.0) + rng.normal(0, 400, L))
        vm = np.array([valid[int(i * len(valid) / L)] for i in range(L)])
        series.append((s, vm))
    offs = [int(c), -1500, 700, -3000, 2500]
    for s, vm in series:
        if relation == "linear":
            s = float(a) + float(b) * np.arange(len(s)) if (a or b) else 500.0 + 25.0 * np.arange(len(s))
        nmin = 5 if kernel.startswith("ws2dwcv") else 2
        if vm.sum() < nmin or np.any(s[vm] == nodata):
            continue
        y0 = np.where(vm, s, nodata).astype("float64")
        for g in grids[:2]:
            kw = dict(lam=lam, p=p, llas=g.astype("float64"), robust=bool(robust), lc=0.7)
            try:
                o0, l0_ = _run_smoother(kernel, y0, nodata, **kw)
            except Exception as e:  # noqa
                return {"violates": True, "why": f"raised {type(e).__name__}"}
            if relation == "linear":
                if np.max(np.abs(o0 - np.round(s))) > 1:
                    return {"violates": True, "why": "linear series not returned unchanged", "y": y0, "out": o0}
                # the same line with a placeholder far away from it (a placeholder next to the line hides a gap that was not filled)
                far = float(np.min(s) - 5000) if np.min(s) - 5000 > -32000 else float(np.max(s) + 5000)
                yf = np.where(vm, s, far).astype("float64")
                try:
                    of, _ = _run_smoother(kernel, yf, far, **kw)
                except Exception as e:  # noqa
                    return {"violates": True, "why": f"raised {type(e).__name__}"}
                if np.max(np.abs(of - np.round(s))) > 1:
                    return {"violates": True, "why": "linear series (gaps included) not returned as the line", "y": yf, "out": of}
                continue
            if relation == "reversal":
                o1, l1_ = _run_smoother(kernel, y0[::-1].copy(), nodata, **kw)
                same_l = l0_ is None or abs(l0_ - l1_) <= 1e-9 * abs(l0_)
                if not same_l or np.max(np.abs(o1[::-1] - o0)) > 1:
                    return {"violates": True, "why": "time reversal", "y": y0, "lopt": [l0_, l1_], "maxdiff": float(np.max(np.abs(o1[::-1] - o0))), "llas": g}
                continue
            for cc in offs:
                if np.max(np.abs(s[vm] + cc)) > 10000 or np.any(s[vm] + cc == nodata + cc):
                    continue
                y1 = np.where(vm, s + cc, nodata + cc).astype("float64")
                o1, l1_ = _run_smoother(kernel, y1, nodata + cc, **kw)
                same_l = l0_ is None or abs(l0_ - l1_) <= 1e-9 * abs(l0_)
                if not same_l or np.max(np.abs((o1 - cc) - o0)) > 1:
                    return {"violates": True, "why": f"offset {cc}", "y": y0, "lopt": [l0_, l1_], "maxdiff": float(np.max(np.abs((o1 - cc) - o0))), "llas": g}
    return {"violates": False}


# ------------------------------------------------------------------ C20
def c20_tinterpolate(name, x, template, labels, mode, declared=None, stride=2):
    from hdc.algo import ops
    from fractions import Fraction as F
    rng = np.random.default_rng(41)
    if mode == "strided":
        # every input as a non-contiguous view of a wider buffer vs the same values in contiguous arrays
        k = int(stride) if 2 <= int(stride) <= 8 else 2
        bad = []
        for tpl, lab in ((template, labels), ([1, 0, 1, 0, 0, 1, 0, 0, 1, 1], [3, 3, 3, 4, 4, 4, 4, 5, 5, 5])):
            nobs = int(sum(tpl))
            xv = np.array((list(x) * 4)[:nobs], dtype="int16") + np.arange(nobs, dtype="int16") * 37
            nrun = len(set(lab))
            ref = ops.tinterpolate(xv.copy(), np.array(tpl, dtype="float64"), np.array(lab, dtype="int32"), np.zeros(nrun, dtype="uint8"))

            def view(arr, dtype, fill):
                wide = np.full(len(arr) * k, fill, dtype=dtype)
                wide[::k] = arr
                return wide[::k]
            for which in ("x", "template", "labels", "all"):
                xa = view(xv, "int16", 9999) if which in ("x", "all") else xv.copy()
                ta = view(np.array(tpl, dtype="float64"), "float64", 1.0) if which in ("template", "all") else np.array(tpl, dtype="float64")
                la = view(np.array(lab, dtype="int32"), "int32", 99) if which in ("labels", "all") else np.array(lab, dtype="int32")
                try:
                    got = ops.tinterpolate(xa, ta, la, np.zeros(nrun, dtype="uint8"))
                except Exception as e:  # noqa
                    bad.append({"strided": which, "raised": f"{type(e).__name__}: {e}"[:160]})
                    continue
                if not np.array_equal(got, ref):
                    bad.append({"strided": which, "got": got.tolist(), "contiguous": ref.tolist()})
        return {"violates": bool(bad), "bad": bad[:4], "declared": declared}
    template = [int(t) for t in template]
    D = len(template)
    days = [d for d in range(D) if template[d]]
    runs = []
    s = 0
    for i in range(1, D + 1):
        if i == D or labels[i] != labels[i - 1]:
            runs.append((s, i))
            s = i
    trials = [list(x)] + [list(rng.integers(-500, 9000, len(days))) for _ in range(3)] + [[0 if k % 3 == 0 else int(v) for k, v in enumerate(rng.integers(1, 9000, len(days)))]]
    if mode == "constant":
        trials = [[int(x[0])] * len(days), [1234] * len(days)]
    if mode == "linear":
        trials = [[int(100 + 7 * d) for d in days], [int(9000 - 13 * d) for d in days]]
    for xv in trials:
        xa = np.array(xv, dtype="int16")
        tmpl = np.array(template, dtype="float64")
        lab = np.array(labels, dtype="int32")
        tcopy, lcopy = tmpl.copy(), lab.copy()
        sentinel = np.full(len(runs), -77, dtype="int16")
        out = ops.tinterpolate(xa, tmpl, lab, np.zeros(len(runs), dtype="uint8"))
        if not np.array_equal(tmpl, tcopy) or not np.array_equal(lab, lcopy):
            return {"violates": True, "why": "inputs modified"}
        # exact rational reference: solve the normal equations in Fractions (banded elimination)
        n = D
        lam = F(1, 100000)
        A = [[F(0)] * n for _ in range(n)]
        for i in range(n):
            A[i][i] += template[i]
        for r in range(n - 2):
            row = {r: 1, r + 1: -2, r + 2: 1}
            for i, a in row.items():
                for j, b in row.items():
                    A[i][j] += lam * a * b
        rhs = [F(0)] * n
        for j, d in enumerate(days):
            rhs[d] = F(int(xv[j]))
        for i in range(n):          # Gaussian elimination, band width 2
            piv = A[i][i]
            for r in range(i + 1, min(n, i + 3)):
                if A[r][i] != 0:
                    f = A[r][i] / piv
                    for cidx in range(i, min(n, i + 3)):
                        A[r][cidx] -= f * A[i][cidx]
                    rhs[r] -= f * rhs[i]
        z = [F(0)] * n
        for i in range(n - 1, -1, -1):
            acc = rhs[i]
            for cidx in range(i + 1, min(n, i + 3)):
                acc -= A[i][cidx] * z[cidx]
            z[i] = acc / A[i][i]
        bad = []
        if len(out) != len(runs):
            return {"violates": True, "why": f"{len(out)} outputs for {len(runs)} label runs"}
        for k, (s_, e_) in enumerate(runs):
            mean = sum(z[s_:e_]) / (e_ - s_)
            fl = mean.numerator // mean.denominator
            frac = mean - fl
            tie = abs(float(frac) - 0.5) < 1e-4
            ref = round(mean)
            if out[k] != ref and not (tie and abs(int(out[k]) - float(mean)) <= 0.5 + 1e-4):
                bad.append((k, int(out[k]), float(mean)))
        if bad:
            return {"violates": True, "why": "period value is not the rounded mean of the daily curve", "x": xv, "bad": bad[:4]}
    return {"violates": False}


# ------------------------------------------------------------------ C14
def c14_boundscheck(kernel, data=None, nodata=-3000, lam=10.0, p=0.9, robust=False, n=None, x=None, window=None, groups=None,
                    template=None, labels=None, pix=None, zone=None, znd=None):
    """Run the real kernel under NUMBA_BOUNDSCHECK=1 (server started with it): IndexError, or outputs that depend on what the
    output buffer held before the call, are violations."""
    import os
    from hdc.algo import ops
    from hdc.algo.ops import stats
    assert os.environ.get("NUMBA_BOUNDSCHECK") == "1"
    lam = float(lam) if lam is not None and 0 < float(lam) < 1e8 else 10.0
    p = float(p) if p is not None and 0 < float(p) < 1 else 0.9

    def twice(f, ins, outs):
        res = []
        for fillv in (-77, 111):
            bufs = [np.full(shape, fillv, dtype=dt) for shape, dt in outs]
            f(*ins, *bufs)
            res.append([b.copy() for b in bufs])
        return [not np.array_equal(a, b, equal_nan=True) for a, b in zip(*res)], res[0]
    try:
        if kernel == "ws2d":
            from hdc.algo.ops.ws2d import ws2d
            ws2d(np.arange(n, dtype="float64"), lam, np.ones(n))
            return {"violates": False}
        if kernel in ("ws2dgu", "ws2dpgu", "ws2doptv", "ws2doptvp", "ws2doptvplc", "ws2dwcv", "ws2dwcvp"):
            y = _series(data, nodata)
            m = len(y)
            g = np.array([0.0, 1.0])
            f = getattr(ops, kernel)
            if kernel == "ws2dgu":
                ins, outs = [y, lam, nodata], [((m,), "int16")]
            elif kernel == "ws2dpgu":
                ins, outs = [y, lam, nodata, p], [((m,), "int16")]
            elif kernel == "ws2doptv":
                ins, outs = [y, nodata, g], [((m,), "int16"), ((1,), "float64")]
            elif kernel == "ws2doptvp":
                ins, outs = [y, nodata, p, g], [((m,), "int16"), ((1,), "float64")]
            elif kernel == "ws2doptvplc":
                ins, outs = [y.astype("int16"), nodata, p, 0.7], [((m,), "int16"), ((1,), "float64")]
            elif kernel == "ws2dwcv":
                ins, outs = [y, nodata, g, bool(robust)], [((m,), "int16"), ((1,), "float64")]
            else:
                ins, outs = [y, nodata, p, g, bool(robust)], [((m,), "int16"), ((1,), "float64")]
            diff, _ = twice(lambda *a: f(*a[:len(ins)], *[b if b.shape != (1,) else b.reshape(()) for b in a[len(ins):]]) if False else f(*a), ins,
                            [(s if s != (1,) else (), d) for s, d in outs])
            return {"violates": any(diff), "why": "output depends on the previous content of the output buffer" if any(diff) else ""}
        if kernel == "rolling_sum":
            diff, _ = twice(stats.rolling_sum, [np.array(x, dtype="int16"), window, nodata], [((len(x),), "float32")])
            return {"violates": any(diff)}
        if kernel == "mean_grp":
            diff, _ = twice(stats.mean_grp, [np.array(x, dtype="int16"), np.array(groups, dtype="int16"), max(groups) + 1, nodata], [((len(x),), "float32")])
            return {"violates": any(diff)}
        if kernel == "gammastd_grp":
            ng = max(groups) + 1
            cal = np.array([[0, groups.count(g)] for g in range(ng)], dtype="int16")
            diff, first = twice(stats.gammastd_grp, [np.array(x, dtype="int16"), np.array(groups, dtype="int16"), ng, nodata, cal], [((len(x),), "int16")])
            if any(diff):
                return {"violates": True, "why": "output element never written"}
            # scratch arrays allocated inside the kernel: the same call after different preceding calls (different heap content) must give
            # the same result, also on longer records shaped after the witness (same signs / nodata positions, repeated)
            rng = np.random.default_rng(14)
            for reps in (1, 8):
                xs = np.array(list(x) * reps, dtype="int16")
                gs = np.array(list(groups) * reps, dtype="int16")
                cl = np.array([[0, int((gs == g).sum())] for g in range(ng)], dtype="int16")
                if reps > 1:
                    pos = (xs > 0) & (xs != nodata)
                    xs[pos] = np.clip(rng.integers(1, 400, int(pos.sum())), 1, 32000)
                outs = []
                for prime in (None, 30000, 3):
                    if prime is not None:
                        pv = np.clip(rng.integers(1, 50, len(xs)) * prime, 1, 32000).astype("int16")
                        for _ in range(3):
                            stats.gammastd_grp(pv, gs, ng, nodata, cl)
                    outs.append(np.array(stats.gammastd_grp(xs, gs, ng, nodata, cl)))
                if not all(np.array_equal(outs[0], o) for o in outs[1:]):
                    return {"violates": True, "why": "result depends on what earlier calls left in memory (a scratch element is read before it is written)",
                            "x": xs, "results": [o.tolist() for o in outs]}
            return {"violates": False, "why": ""}
        if kernel == "do_mean":
            from hdc.algo.ops.zonal import do_mean
            do_mean(np.array([[[pix]]], dtype="int16"), np.array([[zone]], dtype="uint8" if 0 <= zone <= 255 else "int16"), 1, nodata, znd)
            return {"violates": False}
        if kernel == "lroo":
            ops.lroo(np.array(x, dtype="uint8"))
            return {"violates": False}
        if kernel == "autocorr":
            ops.autocorr(np.array(x, dtype="int16").reshape(1, 1, -1), nodata)
            return {"violates": False}
        if kernel == "mk":
            stats._mann_kendall_trend_gu_nd(np.array(x, dtype="int16"), nodata)
            return {"violates": False}
        if kernel == "tinterpolate":
            runs = 1 + sum(1 for i in range(1, len(labels)) if labels[i] != labels[i - 1])
            diff, _ = twice(ops.tinterpolate, [np.array(x, dtype="int16"), np.array(template, dtype="float64"), np.array(labels, dtype="int32"),
                                               np.zeros(runs, dtype="uint8")], [((runs,), "int16")])
            return {"violates": any(diff)}
    except IndexError as e:
        return {"violates": True, "why": f"IndexError under NUMBA_BOUNDSCHECK=1: {e}"[:200]}
    return {"violates": False, "why": "no replay for this kernel"}


# ------------------------------------------------------------------ C11
def c11_calendar(y, m):
    import calendar
    import datetime as dt
    return {"dim": calendar.monthrange(y, m)[1] if y >= 1 else None, "ordinal": dt.date(y, m, 1).toordinal() - 1}


def c11_dekad(kind, y=1, m=1, d=1, h=0, mi=0, s=0, us=0, raw=36, n=0, raw2=36):
    import calendar
    import datetime as dt
    from hdc.algo.dekad import Dekad
    probs = []

    def chk(c, msg):
        if not c:
            probs.append(msg)
    try:
        if kind in ("from_date", "accessor"):
            inst = dt.datetime(y, m, d, h, mi, s, us)
            D = Dekad(inst)
            idx = 1 if d <= 10 else 2 if d <= 20 else 3
            chk(D.raw == 36 * y + 3 * (m - 1) + idx - 1, "raw")
            chk((D.year, D.month, D.idx, D.yidx) == (y, m, idx, 3 * (m - 1) + idx), "fields")
            chk(D.start_date <= inst, "start <= instant")
            if not (y == 9999 and m == 12 and d >= 21):
                chk(inst <= D.end_date, "instant <= end")
            chk(Dekad(dt.date(y, m, d)).raw == D.raw, "date vs datetime")
            if kind == "accessor":
                import numpy as np
                import xarray as xr
                import hdc.algo  # noqa
                import pandas as pd
                # datetime64[ns] covers 1678..2261: a year outside is folded into that range (same month / day / time of day)
                ya = y if 1678 <= y <= 2261 else (2024 if (m == 2 and d == 29) else 1900 + y % 300)
                for inst2 in (dt.datetime(ya, m, d, h, mi, s, us), dt.datetime(ya, m, d)):
                    D2 = Dekad(inst2)
                    t = xr.DataArray(np.array([np.datetime64(inst2)], dtype="datetime64[ns]"), dims=("time",), name="time")
                    t = t.assign_coords(time=t)
                    acc = t.time.dekad
                    chk(int(acc.idx.values[0]) == D2.idx and int(acc.yidx.values[0]) == D2.yidx
                        and int(acc.raw.values[0]) == D2.raw and int(acc.linspace.values[0]) == D2.yidx - 1, f"accessor idx/yidx/raw/linspace at {inst2}")
                    chk(int(acc.ndays.values[0]) == D2.ndays, f"accessor ndays at {inst2}")
                    chk(str(acc.label.values[0]) == str(D2), f"accessor label at {inst2}")
                    chk(int(acc.year.values[0]) == ya and int(acc.month.values[0]) == m, f"accessor year/month at {inst2}")
                    chk(pd.Timestamp(acc.start_date.values[0]).to_pydatetime() == D2.start_date,
                        f"accessor start_date at {inst2}: {acc.start_date.values[0]} vs {D2.start_date}")
                    chk(pd.Timestamp(acc.end_date.values[0]).to_pydatetime() == D2.end_date,
                        f"accessor end_date at {inst2}: {acc.end_date.values[0]} vs {D2.end_date}")
        elif kind == "from_raw":
            D = Dekad(int(raw))
            yy, mm, ii = D.year, D.month, D.idx
            chk(1 <= yy <= 9999 and 1 <= mm <= 12 and 1 <= ii <= 3 and D.day == 1 + 10 * (ii - 1), "field ranges")
            chk(36 * yy + 3 * (mm - 1) + ii - 1 == raw, "raw round trip")
            chk(Dekad(D.start_date).raw == raw, "start date round trip")
            lab = str(D)
            chk(len(lab) == 8 and lab[:4].isdigit() and lab[4:6].isdigit() and lab[6] == "d" and lab[7] in "123", f"label layout {lab!r}")
            chk(Dekad(lab).raw == raw, "label round trip")
            if raw < 36 * 9999 + 35:
                dim = calendar.monthrange(yy, mm)[1]
                chk(D.ndays == (10 if ii < 3 else dim - 20), f"ndays {D.ndays}")
                chk(D.end_date + dt.timedelta(microseconds=1) == (D + 1).start_date, "abutment")
                last = 10 if ii == 1 else 20 if ii == 2 else dim
                chk(D.end_date == dt.datetime(yy, mm, last, 23, 59, 59, 999999), "end of dekad")
        elif kind == "arith":
            D, E = Dekad(int(raw)), Dekad(int(raw2))
            chk((D + n) - D == n, "(d+n)-d")
            chk((D + n) - n == D, "(d+n)-n")
            chk(n + D == D + n, "radd")
            chk(E - D == raw2 - raw, "difference")
            chk((D < E, D <= E, D > E, D >= E, D == E, D != E) == (raw < raw2, raw <= raw2, raw > raw2, raw >= raw2, raw == raw2, raw != raw2), "ordering")
            if raw == raw2:
                chk(hash(D) == hash(E), "hash")
            chk((raw < raw2) == (D.start_date < E.start_date), "chronological")
            chk((D == int(raw2)) == (raw == raw2), "eq with int")
    except Exception as e:  # noqa
        probs.append(f"raised {type(e).__name__}: {e}"[:200])
    return {"violates": bool(probs), "why": probs}


# ------------------------------------------------------------------ C07 / C08
def _spi_reference(x, nodata, c0, c1):
    """Independent SciPy evaluation of the definition. Returns list of floats (unrounded*1000) or None per cell; None = nodata."""
    import scipy.special as sc
    import scipy.optimize as so
    x = np.asarray(x, dtype="float64")
    valid = (x != nodata) & (x >= 0)
    out = [None] * len(x)
    if valid.sum() == 0:
        return out
    p0 = float((x[valid] == 0).sum()) / float(valid.sum())
    if p0 > 0.9:
        return out
    win = x[c0:c1]
    pos = win[(win != nodata) & (win > 0)]
    if len(pos) == 0:
        return out
    mean = pos.mean()
    s = np.log(mean) - np.log(pos).mean()
    if not (s > 0):
        return out
    f = lambda a: np.log(a) - sc.digamma(a) - s  # noqa: E731
    thom = (3 - s + np.sqrt((s - 3) ** 2 + 24 * s)) / (12 * s)
    xa, xb = thom * 0.6, thom * 1.4
    if f(xa) * f(xb) > 0:
        return out
    alpha = so.brentq(f, xa, xb, xtol=2e-12, rtol=8.881784197001252e-16, maxiter=100)
    beta = mean / alpha
    for i in range(len(x)):
        if valid[i]:
            out[i] = 1000.0 * float(sc.ndtri(p0 + (1 - p0) * sc.gammainc(alpha, x[i] / beta)))
    return out


def _spi_compare(got, ref, nodata):
    bad = []
    for i, (g, r) in enumerate(zip(got, ref)):
        if r is None:
            if g != nodata:
                bad.append((i, int(g), "nodata expected"))
            continue
        if not np.isfinite(r) or abs(r) > 7000:
            continue   # C08's territory
        if abs(g - r) > 0.5 + 1e-4 * max(1.0, abs(r)):
            bad.append((i, int(g), r))
    return bad


def c07_spi(entry, pixels, nodata, window=None, groups=None, cal=None, precision=False):
    from hdc.algo.ops import stats
    rng = np.random.default_rng(43)
    if precision:
        # shaped after a single-precision candidate: long int16 records of low variability (large gamma shape), where single-precision
        # logarithms / sums move the fitted shape enough to change the rounded index
        for mu, sd, T in ((5000, 60, 300), (12000, 90, 400), (3000, 15, 250), (20000, 400, 350)):
            p = np.clip(np.round(rng.normal(mu, sd, T)), 1, 32000).astype("int16")
            res = stats.gammastd_yxt(p.reshape(1, 1, -1), nodata, cal_start=0, cal_stop=T)[0, 0, :]
            bad = _spi_compare(res, _spi_reference(p, nodata, 0, T), nodata)
            if bad:
                return {"violates": True, "why": "low-variability int16 record", "mean": mu, "sd": sd, "steps": T, "bad": bad[:4]}
    base = [np.array(p, dtype="int64") for p in pixels]
    variants = [base]
    for k in range(4):
        v = []
        for p in base:
            q = p.copy()
            ok = q != nodata
            q[ok] = np.where(q[ok] > 0, q[ok] * rng.integers(1, 40) + rng.integers(0, 30, ok.sum()), q[ok])
            q[ok & (q == nodata)] += 1
            v.append(np.clip(q, -32000, 32000))
        variants.append(v)
    for pix in variants:
        try:
            if entry == "yxt":
                cube = np.array(pix, dtype="int16").reshape(1, len(pix), -1)
                res = stats.gammastd_yxt(cube, nodata, cal_start=window[0], cal_stop=window[1])
                for k, p in enumerate(pix):
                    bad = _spi_compare(res[0, k, :], _spi_reference(p, nodata, window[0], window[1]), nodata)
                    if bad:
                        return {"violates": True, "pixel": p, "window": window, "bad": bad[:4], "got": res[0, k, :]}
            else:
                p = pix[0]
                g = np.array(groups, dtype="int16")
                ng = int(max(groups)) + 1
                res = stats.gammastd_grp(np.array(p, dtype="int16"), g, ng, nodata, np.array(cal, dtype="int16"))
                for grp in range(ng):
                    idx = np.where(g == grp)[0]
                    bad = _spi_compare(res[idx], _spi_reference(p[idx], nodata, cal[grp][0], cal[grp][1]), nodata)
                    if bad:
                        return {"violates": True, "pixel": p, "group": grp, "bad": bad[:4], "got": res}
        except Exception as e:  # noqa
            return {"violates": True, "why": f"raised {type(e).__name__}: {e}"[:200], "pixels": pix}
    if entry != "yxt":
        # long grouped records shaped after the candidate (same group pattern repeated, proper sub-windows per group): behaviour
        # that only shows beyond a size threshold of a library routine (e.g. an unstable sort switching algorithm at 16 elements)
        g0 = list(groups)
        ng = int(max(g0)) + 1
        for reps in (6, 12, 25):
            g = np.array(g0 * reps, dtype="int16")
            T = len(g)
            p = np.round(rng.gamma(2.0, 60.0, T)).astype("int64") + 1
            p[rng.integers(0, T, size=max(1, T // 15))] = 0
            p[rng.integers(0, T, size=max(1, T // 20))] = nodata
            calL = []
            for grp in range(ng):
                ngp = int((g == grp).sum())
                calL.append([ngp // 4, ngp // 4 + max(3, ngp // 2)])
            try:
                res = stats.gammastd_grp(p.astype("int16"), g, ng, nodata, np.array(calL, dtype="int16"))
            except Exception as e:  # noqa
                return {"violates": True, "why": f"long grouped record raised {type(e).__name__}: {e}"[:200]}
            for grp in range(ng):
                idx = np.where(g == grp)[0]
                bad = _spi_compare(res[idx], _spi_reference(p[idx], nodata, calL[grp][0], calL[grp][1]), nodata)
                if bad:
                    return {"violates": True, "long_grouped_record": {"steps": T, "group": grp, "cal": calL[grp]}, "bad": bad[:4]}
    return {"violates": False}


def c08_spi(entry, pixel, nodata, window=None, groups=None, cal=None, shape="model"):
    """Replay with witnesses shaped after the candidate: the model's own pixel, then degenerate pixels next to an ordinary one in
    the same cube (no exception may escape), then a ladder of outliers far outside the calibration data (must saturate, not wrap)."""
    from hdc.algo.ops import stats
    rng = np.random.default_rng(47)
    T = max(len(pixel), 12)
    ordinary = np.round(rng.gamma(2.0, 40.0, T)).astype("float64") + 1
    probs = []

    def run_cube(pix_list, dtype, win):
        cube = np.array(pix_list, dtype=dtype).reshape(1, len(pix_list), -1)
        return stats.gammastd_yxt(cube, nodata, cal_start=win[0], cal_stop=win[1])[0]
    win = (0, T)
    # 1. the model's pixel itself (padded with ordinary values is not needed: run as is)
    try:
        p = np.array(pixel, dtype="int16")
        if entry == "grp":
            g = np.array(groups, dtype="int16")
            stats.gammastd_grp(p, g, int(max(groups)) + 1, nodata, np.array(cal, dtype="int16"))
        else:
            w0 = window or (0, len(p))
            stats.gammastd_yxt(p.reshape(1, 1, -1), nodata, cal_start=w0[0], cal_stop=w0[1])
    except Exception as e:  # noqa
        probs.append(f"model pixel {list(pixel)}: raised {type(e).__name__}: {e}"[:160])
    # 2. degenerate pixels next to an ordinary one
    degenerate = {"all-negative": np.full(T, -5.0), "all-zero": np.zeros(T), "all-nodata": np.full(T, float(nodata)),
                  "constant": np.full(T, 37.0), "one positive": np.r_[np.zeros(T - 1), 12.0]}
    ref = run_cube([ordinary], "int16", win)[0]
    for name, dp in degenerate.items():
        try:
            res = run_cube([dp, ordinary], "int16", win)
            if not np.array_equal(res[1], ref):
                probs.append(f"{name} pixel changed the result of its neighbour")
            if name in ("all-negative", "all-nodata") and not np.all(res[0] == nodata):
                probs.append(f"{name} pixel must yield nodata everywhere")
        except Exception as e:  # noqa
            probs.append(f"{name} pixel next to an ordinary pixel: raised {type(e).__name__}: {e}"[:160])
    # 3. ordering and saturation with outliers outside the calibration window
    cal_n = T - 1
    for factor in [10.0 ** k for k in (1, 2, 3, 4, 5, 6)] + [10.0 ** -k for k in (1, 3, 10, 30, 100, 300)] + [0.0]:
        pix = ordinary.copy()
        pix[-1] = ordinary[:cal_n].mean() * factor
        try:
            res = run_cube([pix], "float64", (0, cal_n))[0].astype("int64")
        except Exception as e:  # noqa
            probs.append(f"outlier x{factor:g}: raised {type(e).__name__}"[:160])
            continue
        order = np.argsort(pix, kind="stable")
        vals = res[order]
        obs = pix[order]
        for a in range(len(vals) - 1):
            if vals[a] != nodata and vals[a + 1] != nodata and obs[a] <= obs[a + 1] and vals[a] > vals[a + 1]:
                probs.append(f"outlier x{factor:g}: observation {obs[a]:.4g} -> {vals[a]} but larger observation {obs[a + 1]:.4g} -> {vals[a + 1]}")
                break
    # 4. the same ladder through the grouped driver (one group, tight calibration data, int16 observations)
    tight = (100 + rng.integers(-3, 4, T)).astype("int16")
    for outlier in (130, 200, 600, 5000, 32000, 1, 0):
        pix = tight.copy()
        pix[-1] = outlier
        try:
            res = stats.gammastd_grp(pix, np.zeros(T, dtype="int16"), 1, nodata, np.array([[0, T - 1]], dtype="int16")).astype("int64")
        except Exception as e:  # noqa
            probs.append(f"grouped driver, outlier {outlier}: raised {type(e).__name__}"[:160])
            continue
        order = np.argsort(pix, kind="stable")
        vals, obs = res[order], pix[order]
        for a in range(len(vals) - 1):
            if vals[a] != nodata and vals[a + 1] != nodata and obs[a] <= obs[a + 1] and vals[a] > vals[a + 1]:
                probs.append(f"grouped driver, outlier {outlier}: observation {obs[a]} -> {vals[a]} but larger observation {obs[a + 1]} -> {vals[a + 1]}")
                break
    return {"violates": bool(probs), "why": probs[:6]}


def c08_accessor_nodata(grouped, arg, attr):
    """spi through the accessor with the cells marked by the resolved nodata value (argument if given, else attribute): marked cells must
    come back marked, nothing may raise, the other cells must match the SciPy reference."""
    import xarray as xr
    import pandas as pd
    import hdc.algo  # noqa
    rng = np.random.default_rng(8)
    T = 24
    nd = arg if arg is not None else attr
    base = np.round(rng.gamma(2.0, 40.0, size=(T, 2, 2))).astype("int64") + 1
    for v in (nd, attr if attr is not None else nd):
        base[base == v] += 1
    cube = base.copy()
    marks = [(3, 0, 0), (10, 0, 0), (17, 1, 1)]
    for m in marks:
        cube[m] = nd
    attrs = {} if attr is None else {"nodata": attr}
    da = xr.DataArray(cube.astype("int16"), dims=("time", "y", "x"), coords={"time": pd.date_range("2000-01-01", periods=T, freq="MS")}, attrs=attrs)
    kw = {}
    if arg is not None:
        kw["nodata"] = arg
    if grouped:
        kw["groups"] = [i % 2 for i in range(T)]
    try:
        res = da.hdc.algo.spi(**kw).transpose("time", "y", "x").values
    except Exception as e:  # noqa
        return {"violates": True, "raised": f"{type(e).__name__}: {e}"[:200], "arg": arg, "attr": attr}
    bad = []
    for m in marks:
        if res[m] != nd:
            bad.append({"cell": list(m), "got": int(res[m]), "expected_nodata": nd})
    for (r, c) in ((0, 0), (0, 1), (1, 1)):
        series = cube[:, r, c]
        if grouped:
            for g in (0, 1):
                idx = np.arange(T)[np.arange(T) % 2 == g]
                b = _spi_compare(res[idx, r, c], _spi_reference(series[idx], nd, 0, len(idx)), nd)
                if b:
                    bad.append({"pixel": [r, c], "group": g, "bad": b[:2]})
        else:
            b = _spi_compare(res[:, r, c], _spi_reference(series, nd, 0, T), nd)
            if b:
                bad.append({"pixel": [r, c], "bad": b[:2]})
    return {"violates": bool(bad), "bad": bad[:4], "arg": arg, "attr": attr}


# ------------------------------------------------------------------ C09
def _times(times):
    import pandas as pd
    # abstract time stamps are integer HOURS (so that bounds with a time of day are representable)
    return pd.DatetimeIndex([pd.Timestamp("2000-01-01") + pd.Timedelta(hours=int(t)) for t in times])


def _ts(v):
    import pandas as pd
    return pd.Timestamp("2000-01-01") + pd.Timedelta(hours=int(v))


def c09_indices(times, begin, end, groups=None, num_groups=None):
    from hdc.algo.utils import get_calibration_indices
    tix = _times(times)
    if groups is None:
        a, b = get_calibration_indices(tix, (_ts(begin), _ts(end)))
        return {"value": [int(a), int(b)]}
    res = get_calibration_indices(tix, (_ts(begin), _ts(end)), np.array(groups, dtype="int16"), num_groups)
    return {"value": np.asarray(res).tolist()}


def c09_window(kind, times=None, begin=None, end=None, groups=None, pass_num_groups=True, part=None, order=None):
    import xarray as xr
    import hdc.algo  # noqa
    from hdc.algo.utils import get_calibration_indices, to_linspace
    probs = []
    if kind == "linspace":
        k = max(part) + 1
        # labels realised as strings whose sort order is `order`
        names = [None] * k
        for rank_, j in enumerate(order):
            names[j] = f"{rank_:02d}-grp"
        x = np.array([names[p] for p in part], dtype="str")
        codes, keys = to_linspace(x)
        rank = {order[j]: j for j in range(k)}
        if [int(c) for c in codes] != [rank[p] for p in part] or list(keys) != sorted(set(names)):
            probs.append(f"to_linspace({list(x)}) -> {list(codes)}, {keys}")
        return {"violates": bool(probs), "why": probs}
    T = len(times)
    tix = _times(times)
    bb = times[0] if begin is None else begin
    ee = times[-1] if end is None else end
    inside = [bb <= t <= ee for t in times]
    if kind == "indices":
        if groups is None:
            a, b = get_calibration_indices(tix, (_ts(begin), _ts(end)))
            if [a <= i < b for i in range(T)] != inside:
                probs.append(f"indices [{a},{b}) for window {begin}..{end} on {times}")
        else:
            ng = max(groups) + 1
            res = np.asarray(get_calibration_indices(tix, (_ts(begin), _ts(end)), np.array(groups, dtype="int16"), ng if pass_num_groups else None))
            for g in range(ng):
                mem = [i for i in range(T) if groups[i] == g]
                if [res[g, 0] <= k < res[g, 1] for k in range(len(mem))] != [inside[i] for i in mem]:
                    probs.append(f"group {g}: indices {res[g].tolist()} for window {begin}..{end}, member steps {[times[i] for i in mem]}")
        return {"violates": bool(probs), "why": probs[:3]}
    # accessor: compare with per-group ungrouped SPI under the same window and check attrs / errors
    rng = np.random.default_rng(53)
    data = np.round(rng.gamma(2.0, 40.0, (T, 1, 2))).astype("int16") + 1
    da = xr.DataArray(data, dims=("time", "y", "x"), coords={"time": tix}, attrs={"nodata": -9999})
    kw = {}
    if begin is not None:
        kw["calibration_begin"] = _ts(begin)
    if end is not None:
        kw["calibration_end"] = _ts(end)
    if groups is not None:
        kw["groups"] = [str(g) for g in groups]
    if groups is None:
        ok_window = sum(inside) >= 2
    else:
        ok_window = all(sum(1 for i in range(T) if groups[i] == g and inside[i]) >= 2 for g in range(max(groups) + 1))
    try:
        res = da.hdc.algo.spi(**kw)
        err = None
    except Exception as ex:  # noqa
        res, err = None, type(ex).__name__
    if not ok_window:
        if err != "ValueError":
            probs.append(f"invalid window {begin}..{end} on {times}: expected ValueError, got {err}")
        return {"violates": bool(probs), "why": probs}
    if err is not None:
        return {"violates": True, "why": [f"valid window raised {err}"]}
    first = [t for t, c in zip(times, inside) if c][0]
    last = [t for t, c in zip(times, inside) if c][-1]
    if res.attrs.get("spi_calibration_begin") != str(_ts(first)) or res.attrs.get("spi_calibration_end") != str(_ts(last)):
        probs.append(f"attrs {res.attrs.get('spi_calibration_begin')} .. {res.attrs.get('spi_calibration_end')}")
    from hdc.algo.ops.stats import gammastd_yxt
    out = res.transpose("y", "x", "time").values
    cube = np.moveaxis(data, 0, -1)
    if groups is None:
        idx = [i for i, c in enumerate(inside) if c]
        ref = gammastd_yxt(cube, -9999, cal_start=idx[0], cal_stop=idx[-1] + 1)
        if not np.array_equal(out, ref):
            probs.append("ungrouped result differs from the kernel run on the inclusive window")
    else:
        for g in range(max(groups) + 1):
            mem = [i for i in range(T) if groups[i] == g]
            sel = [k for k, i in enumerate(mem) if inside[i]]
            ref = gammastd_yxt(cube[:, :, mem], -9999, cal_start=sel[0], cal_stop=sel[-1] + 1)
            if not np.array_equal(out[:, :, mem], ref):
                probs.append(f"group {g}: grouped result differs from the ungrouped SPI of the group's sub-series")
    return {"violates": bool(probs), "why": probs[:3]}


def c17_accessor(which, xx, nodata, window, dtype, nodata_from, groups=None, attr_nodata=None):
    import xarray as xr
    import hdc.algo  # noqa
    n = len(xx)
    lo, hi = np.iinfo(dtype).min, np.iinfo(dtype).max
    trials = [(list(xx), int(nodata))]
    if nodata_from == "both":
        # the explicit argument must win over the attribute: cells equal to the argument are missing, cells equal to the attribute are data
        an = int(attr_nodata) if attr_nodata is not None else -9999
        if an == int(nodata):
            an = int(nodata) - 1 if int(nodata) > lo else int(nodata) + 1
        base = [int(nodata) if i % 3 == 1 else (an if i % 3 == 2 else 5 + i) for i in range(max(n, 6))][:n]
        trials = [(list(xx), int(nodata)), (base, int(nodata))]
    for sent in (hi, lo, -99999999 if lo < -99999999 else lo, 16777217 if hi > 16777217 else hi):
        trials.append(([sent if i % 2 == 0 else (i + 1) for i in range(n)], sent))
        trials.append(([sent] * n, sent))
    for vals, nd in trials:
        data = np.array(vals, dtype=dtype).reshape(n, 1, 1)
        attrs = {"nodata": nd} if nodata_from == "attrs" else ({"nodata": an} if nodata_from == "both" else {})
        da = xr.DataArray(data, dims=("time", "y", "x"), attrs=attrs)
        kw = {} if nodata_from == "attrs" else {"nodata": nd}
        if which == "rolling":
            res = da.hdc.rolling.sum(window, **kw).transpose("time", ...).values[:, 0, 0]
            if len(res) != n - window + 1:
                return {"violates": True, "why": f"{len(res)} results for n={n}, window={window}"}
            for k, o in enumerate(res):
                win = vals[k:k + window]
                valid = [v for v in win if v != nd]
                s = float(np.float32(sum(valid)))
                ndf = float(np.float32(nd))
                ok = (o == s) if len(valid) == len(win) else ((o == ndf) if not valid else (o == ndf or o == s))
                if not ok:
                    return {"violates": True, "why": f"dtype={dtype} nodata={nd} window={win}: got {float(o)}", "xx": vals}
        else:
            res = da.hdc.algo.mean_grp(np.array(groups, dtype="int16"), **kw).transpose("time", ...).values[:, 0, 0]
            for i in range(n):
                mem = [vals[j] for j in range(n) if groups[j] == groups[i] and vals[j] != nd]
                exp = (sum(mem) / len(mem)) if mem else nd
                if not (abs(float(res[i]) - exp) <= 1e-6 * max(1.0, abs(exp))):
                    return {"violates": True, "why": f"mean_grp dtype={dtype} nodata={nd}: cell {i} got {float(res[i])}, expected {exp}", "xx": vals}
    return {"violates": False}


# ------------------------------------------------------------------ C12
def _c12_call(driver, cube, nodata, p, extra):
    if driver == "ws2doptvplc_tyx":
        from hdc.algo.ops.ws2doptvplc import ws2doptvplc_tyx
        zz, lo = ws2doptvplc_tyx(cube, p, nodata)
        return np.concatenate([np.asarray(zz, dtype="float64"), np.asarray(lo, dtype="float64")[None, :, :]], axis=0), "tyx"
    if driver == "autocorr_tyx":
        from hdc.algo.ops.autocorr import autocorr_tyx
        return np.asarray(autocorr_tyx(cube, nodata), dtype="float64")[None, :, :], "tyx"
    if driver == "autocorr":
        from hdc.algo.ops.autocorr import autocorr
        return np.asarray(autocorr(cube, nodata), dtype="float64")[:, :, None], "yxt"
    if driver == "gammastd_yxt":
        from hdc.algo.ops.stats import gammastd_yxt
        return np.asarray(gammastd_yxt(cube, nodata, extra.get("cal_start"), extra.get("cal_stop")), dtype="float64"), "yxt"
    if driver == "mann_kendall_trend_yxt":
        from hdc.algo.ops.stats import mann_kendall_trend_yxt
        return np.asarray(mann_kendall_trend_yxt(cube), dtype="float64"), "yxt"
    raise ValueError(driver)


def _c12_pix(res, layout, r, c):
    return res[:, r, c] if layout == "tyx" else res[r, c, :]


def _c12_same(a, b):
    a, b = np.asarray(a, dtype="float64"), np.asarray(b, dtype="float64")
    return a.shape == b.shape and bool(np.all((a == b) | (np.isnan(a) & np.isnan(b))))


def c12_driver(driver, layout, dtype, nt, nr, nc, pixels, nodata, p=None, extra=None, race=None):
    """Joint run of the real driver vs the same driver on every pixel alone (bit-identical results expected); for the
    parallel driver also 1 thread vs all threads on a cube tiled from the witness pixels plus seeded variations."""
    extra = extra or {}
    p = 0.9 if p is None else float(p)
    px = {tuple(int(i) for i in k.split(",")): v for k, v in pixels.items()}

    def build(pxmap, nr_, nc_):
        if layout == "tyx":
            cube = np.zeros((nt, nr_, nc_), dtype=dtype)
            for (r, c), v in pxmap.items():
                cube[:, r, c] = v
        else:
            cube = np.zeros((nr_, nc_, nt), dtype=dtype)
            for (r, c), v in pxmap.items():
                cube[r, c, :] = v
        return cube
    out = {"violates": False, "mismatches": []}
    try:
        joint, lay = _c12_call(driver, build(px, nr, nc), nodata, p, extra)
        for (r, c), v in px.items():
            alone, _ = _c12_call(driver, build({(0, 0): v}, 1, 1), nodata, p, extra)
            if not _c12_same(_c12_pix(joint, lay, r, c), _c12_pix(alone, lay, 0, 0)):
                out["violates"] = True
                out["mismatches"].append({"pixel": [r, c], "joint": _c12_pix(joint, lay, r, c).tolist(), "alone": _c12_pix(alone, lay, 0, 0).tolist()})
        # mirrored placement
        mir = {(nr - 1 - r, nc - 1 - c): v for (r, c), v in px.items()}
        jm, _ = _c12_call(driver, build(mir, nr, nc), nodata, p, extra)
        for (r, c) in px:
            if not _c12_same(_c12_pix(joint, lay, r, c), _c12_pix(jm, lay, nr - 1 - r, nc - 1 - c)):
                out["violates"] = True
                out["mismatches"].append({"pixel": [r, c], "mirrored": True})
    except Exception as e:  # noqa
        return {"violates": True, "raised": f"{type(e).__name__}: {e}"[:300]}
    if driver == "ws2doptvplc_tyx":
        import numba
        rnd = np.random.default_rng(12)
        T = max(nt, 24)
        R, Cc = 96, 8
        base = np.zeros((T, R, Cc), dtype=dtype)
        wit = list(px.values())
        for r in range(R):
            for c in range(Cc):
                s = np.resize(np.asarray(wit[(r * Cc + c) % len(wit)], dtype="int64"), T)
                s = s + rnd.integers(0, 400, size=T) * (1 + (r % 7))
                s = np.clip(s, -30000, 30000)
                if (r + c) % 5 == 0:
                    s[rnd.integers(0, T, size=3)] = nodata
                base[:, r, c] = s
        from hdc.algo.ops.ws2doptvplc import ws2doptvplc_tyx
        nmax = numba.config.NUMBA_NUM_THREADS
        numba.set_num_threads(1)
        z1, l1 = ws2doptvplc_tyx(base, p, nodata)
        rows = [ws2doptvplc_tyx(np.ascontiguousarray(base[:, r:r + 1, :]), p, nodata) for r in range(0, R, 13)]
        for k, r in enumerate(range(0, R, 13)):
            if not (_c12_same(rows[k][0][:, 0, :], z1[:, r, :]) and _c12_same(rows[k][1][0], l1[r])):
                out["violates"] = True
                out["mismatches"].append({"row_alone_differs": r})
        numba.set_num_threads(nmax)
        bad = 0
        for rep in range(6):
            zn, ln = ws2doptvplc_tyx(base, p, nodata)
            if not (_c12_same(zn, z1) and _c12_same(ln, l1)):
                bad += 1
        out["threads"] = {"max": int(nmax), "runs_differing_from_single_thread": bad}
        if bad:
            out["violates"] = True
    return out


def c12_lazy(threads, schedule=None):
    """Concurrent first use of a kernel wrapped by the real `lazycompile`: N threads, staggered starts, a slow compile step.
    Every call must return f's result; nothing may raise. Also the real lazily compiled kernels, hit from N threads at once."""
    import threading
    import time
    from hdc.algo.ops._helper import lazycompile
    out = {"violates": False, "failures": []}
    for stagger in (0.0, 0.02, 0.05, 0.12):
        for n in sorted({2, int(threads), 4}):
            compiled = []

            def slow_decorator(f):
                time.sleep(0.1)

                def g(*a, **k):
                    return ("compiled", f(*a, **k))
                compiled.append(g)
                return g

            @lazycompile(slow_decorator)
            def kern(x):
                return x * 2 + 1
            res = [None] * n

            def run(i):
                time.sleep(stagger * i)
                try:
                    res[i] = ("ok", kern(i))
                except BaseException as e:  # noqa
                    res[i] = ("raised", f"{type(e).__name__}: {e}"[:120])
            th = [threading.Thread(target=run, args=(i,)) for i in range(n)]
            for t in th:
                t.start()
            for t in th:
                t.join()
            for i, r in enumerate(res):
                if r != ("ok", ("compiled", i * 2 + 1)):
                    out["violates"] = True
                    out["failures"].append({"threads": n, "stagger": stagger, "thread": i, "got": str(r)})
            # second use after the race: still the compiled function
            try:
                r2 = kern(7)
            except BaseException as e:  # noqa
                r2 = f"{type(e).__name__}: {e}"[:120]
            if r2 != ("compiled", 15):
                out["violates"] = True
                out["failures"].append({"threads": n, "stagger": stagger, "second_use": str(r2)})
    out["failures"] = out["failures"][:6]
    return out


def c12_autocorr_dask(tchunks, lead, nodata, dtype="int16"):
    """autocorr through the accessor on a dask-backed cube (time chunked into `tchunks` blocks, y/x in 1-pixel .. full chunks) vs the
    in-memory result: same values, dims, dtype."""
    import xarray as xr
    import dask
    import hdc.algo  # noqa
    rng = np.random.default_rng(12)
    T = 12
    info = np.iinfo(dtype)
    nd = int(nodata)
    cube = rng.integers(max(0, int(info.min)), min(300, int(info.max)) + 1, size=(T, 3, 4)).astype(dtype)
    if info.min <= nd <= info.max:
        cube[cube == nd] += 1
        cube[rng.random(size=cube.shape) < 0.15] = nd
    else:
        # a marker the dtype cannot hold: no cell is missing; put the value it would wrap to into the data (those cells are observations)
        wrapped = int(np.array(nd).astype(dtype))
        cube[rng.random(size=cube.shape) < 0.2] = wrapped
    da = xr.DataArray(cube, dims=("time", "y", "x"), attrs={"nodata": nd})
    if not lead:
        da = da.transpose("y", "x", "time")
    ref = da.hdc.algo.autocorr()
    bad = []
    tch = max(1, T // max(1, int(tchunks)))
    for chunks in ({"time": tch, "y": 1, "x": 1}, {"time": tch, "y": 3, "x": 4}, {"time": tch, "y": 2, "x": 3}):
        if not lead:
            chunks = dict(chunks, time=-1)      # a chunked core dimension is refused by apply_ufunc: that is the documented behaviour
        for sched in ("synchronous", "threads"):
            try:
                with dask.config.set(scheduler=sched):
                    lazy = da.chunk(chunks).hdc.algo.autocorr()
                    if str(lazy.dtype) != str(ref.dtype) or lazy.dims != ref.dims or lazy.shape != ref.shape:
                        bad.append({"chunks": chunks, "lazy_result_declares": [str(lazy.dtype), list(lazy.dims), list(lazy.shape)],
                                    "in_memory": [str(ref.dtype), list(ref.dims), list(ref.shape)]})
                        continue
                    got = lazy.compute()
            except Exception as e:  # noqa
                bad.append({"chunks": chunks, "scheduler": sched, "raised": f"{type(e).__name__}: {e}"[:160]})
                continue
            same = got.dims == ref.dims and str(got.dtype) == str(ref.dtype) and np.array_equal(np.asarray(got), np.asarray(ref), equal_nan=True)
            if not same:
                bad.append({"chunks": chunks, "scheduler": sched, "dims": list(got.dims), "dtype": str(got.dtype)})
    return {"violates": bool(bad), "bad": bad[:4]}


def c16_dask_names(vary):
    """Two lazily built zonal means with the same explicit name that differ in the zone raster / the cube / the dtype, computed in ONE
    dask graph, against the in-memory results."""
    import xarray as xr
    import dask
    import hdc.algo  # noqa
    rng = np.random.default_rng(160)
    T, R, Cn, nz = 3, 6, 6, 3
    cube = rng.integers(1, 1000, size=(T, R, Cn)).astype("int16")
    cube2 = (cube // 2 + 7).astype("int16")
    z1 = rng.integers(0, nz, size=(R, Cn)).astype("uint8")
    z2 = np.roll(z1, 2, axis=1).copy()
    z2[:2, :] = (z2[:2, :] + 1) % nz

    def da_of(c):
        return xr.DataArray(c, dims=("time", "y", "x"), coords={"time": [0, 1, 2]}, attrs={"nodata": -9999})

    def zo(z):
        return xr.DataArray(z, dims=("y", "x"), attrs={"nodata": 255})
    bad = []
    pairs = [((cube, z1, "float32"), (cube, z2, "float32")), ((cube, z1, "float32"), (cube2, z1, "float32")), ((cube, z1, "float32"), (cube, z1, "float64"))]
    for (ca, za, da_), (cb, zb, db_) in pairs:
        ea = da_of(ca).hdc.zonal.mean(zo(za), list(range(nz)), dtype=da_, name="zm").values
        eb = da_of(cb).hdc.zonal.mean(zo(zb), list(range(nz)), dtype=db_, name="zm").values
        for chunks in ({"time": 1, "y": -1, "x": -1}, {"time": -1, "y": -1, "x": -1}):
            xa = da_of(ca).chunk(chunks) if cb is ca else da_of(ca).chunk(chunks)
            xb = xa if cb is ca else da_of(cb).chunk(chunks)
            la = xa.hdc.zonal.mean(zo(za), list(range(nz)), dtype=da_, name="zm")
            lb = xb.hdc.zonal.mean(zo(zb), list(range(nz)), dtype=db_, name="zm")
            try:
                ga, gb = dask.compute(la, lb, scheduler="synchronous")
            except Exception as e:  # noqa
                bad.append({"chunks": chunks, "raised": f"{type(e).__name__}: {e}"[:160]})
                continue
            for g, e_, tag in ((ga, ea, "first"), (gb, eb, "second")):
                if not np.array_equal(np.asarray(g.values, dtype="float64"), np.asarray(e_, dtype="float64"), equal_nan=True):
                    bad.append({"chunks": chunks, "which": tag, "differs_from_in_memory": True})
    return {"violates": bool(bad), "bad": bad[:4], "vary": vary}
