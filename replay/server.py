"""Replay server: runs under /venv/bin/python, executes named actions against the real (compiled) hdc-algo code."""
import json
import os
import sys
import traceback

REPO = os.environ.get("HDC_REPO", "/repo")
sys.path.insert(0, REPO)
sys.path.insert(0, os.path.dirname(os.path.abspath(__file__)))
import warnings  # noqa: E402

warnings.filterwarnings("ignore")
import actions  # noqa: E402


def main():
    import hdc.algo  # noqa
    if not os.path.abspath(hdc.algo.__file__).startswith(os.path.abspath(REPO)):
        print("@@" + json.dumps({"error": f"hdc imported from {hdc.algo.__file__}, expected {REPO}"}), flush=True)
    for line in sys.stdin:
        line = line.strip()
        if not line:
            continue
        try:
            req = json.loads(line)
            fn = getattr(actions, req["action"])
            res = fn(**req["params"])
            out = {"result": actions.jsonable(res)}
        except Exception as e:  # noqa
            out = {"error": f"{type(e).__name__}: {e}", "trace": traceback.format_exc()[-2000:]}
        sys.stdout.write("@@" + json.dumps(out) + "\n")
        sys.stdout.flush()


if __name__ == "__main__":
    main()
