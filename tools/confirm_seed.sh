#!/bin/sh
# tools/confirm_seed.sh <PID> <X>  : confirm mutant X of property PID (from /tmp/mut/PID/out) in a fresh scratch worktree of
# /repo HEAD: patch applies, full suite passes with it, demo passes without and fails with it. On success copy into
# /verif/seeded/PID-X/. The worktree is removed afterwards.
PID="$1"; X="$2"
SRC=${SEED_SRC:-/tmp/mut}/$PID/out
NAME=${SEED_NAME:-$PID-$X}
WT=/tmp/seedchk/$NAME
rm -rf "$WT"; mkdir -p /tmp/seedchk
git -C /repo worktree add -f "$WT" HEAD >/dev/null 2>&1 || exit 9
cd "$WT" || exit 9
OK=1
/venv/bin/python "$SRC/$X.demo.py" >/tmp/seedchk/$NAME.demo0.log 2>&1; D0=$?
git apply "$SRC/$X.patch.diff" || { echo "$NAME: patch does not apply"; OK=0; }
if [ $OK = 1 ]; then
  /venv/bin/python "$SRC/$X.demo.py" >/tmp/seedchk/$NAME.demo1.log 2>&1; D1=$?
  /venv/bin/python -m pytest -q -p no:cacheprovider --timeout=900 tests >/tmp/seedchk/$NAME.tests.log 2>&1; T=$?
  TL=$(tail -1 /tmp/seedchk/$NAME.tests.log)
  echo "$NAME: demo_unpatched=$D0 demo_patched=$D1 tests_rc=$T ($TL)"
  if [ $D0 = 0 ] && [ $D1 != 0 ] && [ $T = 0 ]; then
    mkdir -p /verif/seeded/$NAME
    cp "$SRC/$X.patch.diff" /verif/seeded/$NAME/patch.diff
    cp "$SRC/$X.demo.py" /verif/seeded/$NAME/demo.py
    printf '{"confirmed_at_repo_head": "%s", "demo_unpatched_exit": %s, "demo_patched_exit": %s, "test_suite": "%s"}\n' \
      "$(git -C /repo rev-parse --short HEAD)" "$D0" "$D1" "$TL" > /verif/seeded/$NAME/confirm.json
    echo "$NAME: KEPT"
  else
    echo "$NAME: REJECTED"
  fi
fi
cd /; git -C /repo worktree remove --force "$WT"; git -C /repo worktree prune
