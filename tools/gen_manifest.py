#!/usr/bin/env python3
"""Regenerate MANIFEST.json from the table below (kept in one place so it stays valid)."""
import json
import os

HERE = os.path.dirname(os.path.dirname(os.path.abspath(__file__)))

CLAIMED = {
    "C01": dict(
        text="Bounded symbolic verification: ws2d's source is executed on y in R^n (z3 reals) for every enumerated "
             "(n, weight vector, lambda); the solver proves the normal equations (W + lam D'D) z = W y for ALL y, that no pivot "
             "is zero, and uniqueness of the reference system. Tests pin one vector; this covers every y per configuration.",
        note="Floats are exact reals (float64 1e-6 clause outside). Weights/lambda enumerated, not symbolic (NRA unreachable). "
             "Trusted: pysym evaluator (validated against compiled ws2d each run), z3.",
        technique="symbolic execution of ws2d source + z3 QF_LRA per configuration", ref="5 C01"),
    "C17": dict(
        text="Bounded symbolic verification: rolling_sum executed on all int16 series of length <= 6/8 with symbolic nodata "
             "(every window size), mean_grp for every labeling/missing pattern with symbolic values; solver decides the "
             "cell-wise specification and 2-run nodata independence; the accessors rolling.sum / mean_grp over xarray contracts for "
             "int16 / int32 / int64 data with values and nodata symbolic over the whole dtype range (nodata from attrs or argument, "
             "dtype handed to the kernel, trimming); counterexamples replayed on compiled kernels / accessors.",
        note="kernel level: int16 data and int16-representable nodata; int -> float32 conversions are exact only up to 2**24 (modelled as "
             "rounding beyond); float32 output rounding of large sums outside. Trusted: pysym, z3, xarray contracts.",
        technique="symbolic execution of kernel source + z3 LIA/LRA, 2-run relational query", ref="5 C17"),
    "C18": dict(
        text="Bounded symbolic verification: lroo source (np.where as symbolic-length array) against a run-counter definition for "
             "all uint8 series up to length 12/16 and symbolic windows inside 300..1000-step series; inductive step over the "
             "loop body bounds the stored value for N <= 1000; croo method executed over xarray contracts for all stored "
             "orders (symbolic time stamps) up to n = 6/8.",
        note="xarray methods replaced by contracts validated against xarray each run; hand-written loop invariant. "
             "Trusted: pysym, z3, the contracts.",
        technique="symbolic execution + z3 LIA; inductive loop step; contract stubs for xarray", ref="5 C18"),
    "C19": dict(
        text="Bounded symbolic verification: IterativeAggregation._iteragg (via sum/mean/full) executed symbolically as a generator "
             "over index contracts; axis labels, n, begin and end are solver variables (on- and off-axis labels, every lookup method); "
             "the solver decides that exactly the complete trailing windows are yielded newest-first with matching attrs/stamp, and "
             "that unlocatable labels raise ValueError. Axis length 1..5/12.",
        note="pandas get_indexer / xarray slicing-reduce-expand_dims replaced by contracts (get_indexer validated against pandas each "
             "run); reduction numerics are numpy's. Trusted: pysym, z3, contracts.",
        technique="symbolic execution of the accessor generator + z3 LIA over contract stubs", ref="5 C19"),
    "C15": dict(
        text="Bounded symbolic verification: autocorr_1d (int/nodata and float/NaN), autocorr, autocorr_tyx and the accessor's "
             "layout/nodata dispatch executed symbolically per gap pattern; the returned num/(den*sqrt(rad)) is compared with the "
             "mean-filled Pearson definition as polynomial identities over unbounded integers (squared identity, sign identity, "
             "radicand = const*P*Q, zero result only without pairs/variance). T <= 6/8 all gap patterns, contiguous outages to T = 10/12.",
        note="Floats are exact reals (single-precision products / float32 output rounding not modelled); values integers; |r|<=1 only as "
             "corollary. Accessor: DataArray/apply_ufunc contracts. Trusted: pysym, z3 (rewriter normal form + solver).",
        technique="symbolic execution + z3 polynomial identities (sum-of-monomials normal form, monomial abstraction to LRA)", ref="5 C15"),
    "C16": dict(
        text="Bounded symbolic verification: do_mean executed on rasters up to 2x3 px x 2 steps with symbolic pixels, zone ids "
             "(symbolic-index scatter) and nodata values: count and mean per zone equal the definition, NaN exactly for empty "
             "zones, output dtype as requested. The accumulation dtype is read off the symbolic run and z3's floating-point theory "
             "decides that one counter step and one sum step are exact for every zone size up to 25 million pixels.",
        note="int16 pixels; division as uninterpreted quotient compared by numerator/denominator; dask path and accessor "
             "substitution outside. Trusted: pysym, z3 (LIA/UF, FP).",
        technique="symbolic execution + z3 LIA/UF; IEEE-754 single-step obligations in z3 FP (exact iff RTP and RTN agree)", ref="5 C16"),
    "C10": dict(
        text="Bounded symbolic verification: mk_score, mk_variance_s, mk_sens_slope, mann_kendall_trend_1d and both gufunc wrappers "
             "executed symbolically on int16 series with arbitrary ties (one query per length covers every rank pattern): S and "
             "tau vs the pairwise definition, tie-corrected variance vs the per-element tie-group formula, Sen slope vs the median "
             "of pairwise slopes, continuity-corrected Z / p / flag composition, all-nodata pixel, outputs written. parts n <= 6/7, composition n <= 4/6.",
        note="sqrt, erf, ndtri(0.975) uninterpreted and shared by kernel and definition; p<0.05 <=> |Z|>z_crit assumed; symmetry "
             "clauses are corollaries. Trusted: pysym (np.unique/nanmedian via order statistics), z3.",
        technique="symbolic execution + z3 LIA/NIA/UF, order-statistic encoding of unique/median", ref="5 C10"),
    "C02": dict(
        text="Bounded symbolic 2-safety verification: every smoother kernel (7 variants, GCV with and without robust weights) is "
             "executed twice on the same symbolic data with two different symbolic placeholders (and with NaN/+inf/-inf cells for "
             "the NaN-aware kernels); z3 decides cell-wise equality of outputs and equality of lambda, passthrough with lambda 0 "
             "below the minimum valid count, and that no non-finite value reaches the int16 store. Every gap pattern, n = 4..5/6.",
        note="Floats as reals; products/quotients of unknowns uninterpreted (ws2d abstracted over w*y in stage 1, inlined in stage 2); "
             "results outside int16 outside the claim. Trusted: pysym, z3.",
        technique="2-run relational symbolic execution + z3 UF/LRA, two-stage callee abstraction", ref="5 C02"),
    "C03": dict(
        text="Bounded symbolic verification: ws2dgu / ws2dpgu executed next to reference models written from the statement (run by the "
             "same evaluator): cell-wise equality for all data, nodata, lambda > 0 (and == 0), p in (0,1), every gap pattern n = 4..6/8; "
             "exact tie of ws2dgu to the normal equations on a lambda grid (QF_LIRA); whits accessor: 10**sg / s / sg=-inf, p dispatch, "
             "core-dimension wiring, per-pixel grids kept labelled.",
        note="Reference shares only ws2d (C01) with the implementation; composition of the 10 reweighting passes in exact arithmetic is "
             "outside (per-pass weights only); candidates replayed with shape-guided witnesses. Trusted: pysym, z3, xarray contracts.",
        technique="differential symbolic execution against reference models + z3 UF/LIRA", ref="5 C03"),
    "C04": dict(
        text="Bounded symbolic verification: ws2doptv / ws2doptvp executed next to a reference V-curve built from the statement; "
             "z3 decides by order reasoning over opaque V values that the reported lambda is 10**midpoint of a V-minimising "
             "interval (warm- or cold-started iterates accepted for the asymmetric kernel) and by congruence that the band is the "
             "fixed smoother at that lambda; symbolic grids of 3..4(5) entries, every gap pattern with >= 2 valid, n = 5/6. "
             "Grid choice of ws2doptvplc decided for EVERY real lc (and NaN) in regime 2 (ite-trees over lc > 0.5 with constant leaves) "
             "on three series; whitsvc dispatch / naming / float32 sgrid over xarray contracts.",
        note="log/sqrt/pow10/products uninterpreted and shared with the reference; ties of V free; longer sranges outside. "
             "Trusted: pysym, z3, contracts.",
        technique="differential symbolic execution + z3 UF/LRA order reasoning; regime-2 constant-tree evaluation for lc", ref="5 C04"),
    "C05": dict(
        text="Bounded symbolic verification: ws2dwcv / ws2dwcvp (non-robust) executed next to a reference GCV score written from the "
             "statement; z3 decides that the reported lambda is a grid value minimising the score and that the band is the fixed "
             "smoother at it (symbolic grids of 2..4(5) entries, every gap pattern with >= 5 valid cells, n = 5..6/7). Robust mode: "
             "every division / sqrt in the reweighting is an obligation (a zero MAD is found as a satisfying assignment and replayed "
             "on constant / linear / flat-with-spikes series); whitswcv defaults, dispatch, naming and float32 sgrid.",
        note="Scores as opaque values shared with the reference; robust placeholder independence is C02; equality with a reference robust "
             "loop not encoded. Known finding C05-robust-mad-zero is reported, not suppressed elsewhere. Trusted: pysym, z3.",
        technique="differential symbolic execution + z3 UF/LRA order reasoning; division obligations", ref="5 C05"),
    "C06": dict(
        text="Two-level bounded symbolic verification. L1 (exact, QF_LRA): for every (n, weight vector, lambda) of the C01 grid and ALL y, "
             "c, a, b: ws2d commutes with offsets and time reversal, ignores zero-weight cells and reproduces lines. L2: every smoother "
             "executed twice (original / shifted by a symbolic integer c with the placeholder shifted too / reversed / linear data) with "
             "ws2d abstracted and the L1 facts instantiated at corresponding calls; z3 decides same lambda and shifted / reversed / "
             "unchanged output, a unit of slack only on an exact half-even tie.",
        note="L2 applies the L1 facts for all lambda > 0 / weights >= 0 (established on a grid). Offset commutation of whole asymmetric "
             "kernels and robust GCV are not claimed (zero start curve is not offset invariant); linear clause for V-curve kernels outside "
             "(log of an exact fit). Trusted: pysym, z3.",
        technique="2-run relational symbolic execution, callee abstraction with exactly-proved lemmas, z3 LRA/UF", ref="5 C06"),
    "C20": dict(
        text="Bounded symbolic verification (exact-linear): tinterpolate with ws2d inlined and lambda = 1e-5 as in the source is executed "
             "on symbolic int16 observations for six mark/label layouts (5/8/10/16-day and irregular marks; pentad, dekad, "
             "dekad-of-year across New Year, month-like and daily labels; up to 60 days quick / 400 thorough); z3 decides that "
             "every output is the half-even rounding of the period mean of the curve defined only by its normal equations, that "
             "constants and lines in day number are reproduced, that every output is written, inputs are not written and indices "
             "stay in bounds; whitint: int16 requirement and one output per distinct label.",
        note="Floats exact reals (float64 conditioning over thousands of days outside). If the solve leaves the linear regime (weights "
             "depending on observations) that is handed to the replayer as a candidate rather than decided. Trusted: pysym, z3.",
        technique="symbolic execution + z3 QF_LIRA against the normal equations", ref="5 C20"),
    "C14": dict(
        text="Bounded symbolic verification: every kernel is executed symbolically at the boundary sizes of its contract (smoothers n = 2..5, "
             "all-missing / one valid / edge gap, robust GCV; ws2d n = 2..5; rolling_sum window 1 and n; mean_grp / gammastd_grp incl. an "
             "all-nodata group; do_mean one pixel; lroo; autocorr; Mann-Kendall; tinterpolate with 4..6 days). Every subscript the run "
             "evaluates is an obligation 'in bounds after wrap-around' under its path guard, every read of an unassigned local or "
             "uninitialised cell and every unwritten gufunc output element is an obligation; symbolic ones go to z3, candidates are "
             "replayed under NUMBA_BOUNDSCHECK=1 (IndexError / dependence on the previous buffer content).",
        note="Checks the source's index expressions, not the machine code; in-contract inputs only. Trusted: pysym, z3.",
        technique="symbolic execution with bounds / definite-assignment obligations + z3", ref="5 C14"),
    "C11": dict(
        text="Symbolic verification over the FULL calendar range (years 1..9999, every month/day/time of day, every raw dekad integer, "
             "every offset keeping the year in range - all z3 integers, no enumeration): dekad.py (constructor from date / label / raw, "
             "properties, start/end dates, ndays, comparisons, hash, + and -) is executed symbolically; z3 decides the raw formula, "
             "field ranges, containment start <= instant <= end, abutment, end = last microsecond of day 10/20/last, ndays = 10/10/"
             "month length - 20, raw/date/label round trips with the label as fixed-width fields, order = chronological order, "
             "integer translations, and element-wise agreement of the .dekad accessor.",
        note="datetime/timedelta replaced by a proleptic-Gregorian microsecond model validated against CPython (leap / century / 400-year "
             "rules); strftime %Y modelled as unpadded (glibc); end_date of 9999-12-d3 outside as in the property. Trusted: pysym, z3, the model.",
        technique="symbolic execution of the class + z3 LIA (div/mod) over the full range", ref="5 C11"),
    "C07": dict(
        text="Bounded symbolic verification of the COMPOSITION: gammafit / gammastd / gammastd_yxt / gammastd_grp executed next to a reference "
             "model written from the statement (p0 over the whole pixel, fit on the positives inside the calibration window, Thom bracket, "
             "beta = mean/alpha, ndtri(p0 + (1-p0) G(x/beta)), x1000, half-even rounding, nodata / negatives -> nodata, unfittable -> all "
             "nodata); every cell class pattern (missing / negative / zero / positive) for T = 3..4/5 and every calibration window with >= 2 "
             "steps; grouped driver per group; z3 decides cell-wise equality for all observation values and nodata values.",
        note="Brent iteration = 'root in the bracket or 0'; digamma, gammainc, ndtri, log, sqrt uninterpreted and shared - their numerics, "
             "float32 logs and |SPI| > 7 are outside; nodata assumed negative. A defect that only exists in float arithmetic (e.g. 1 - 0.9 < 0.1) "
             "is invisible here. Trusted: pysym, z3, the contracts.",
        technique="differential symbolic execution with contracts for the numerical kernels + z3 UF/LIRA", ref="5 C07"),
    "C08": dict(
        text="Bounded symbolic verification: the SPI drivers executed for every cell-class pattern (missing / negative / zero / positive, incl. "
             "all-negative, all-zero, all-nodata pixels) with symbolic values: every scalar division is an obligation 'denominator != 0' "
             "(ZeroDivisionError in compiled code), every float -> int16 store an obligation 'in range' (an unclamped store of an unbounded "
             "quantile is found as a satisfying assignment and replayed with an outlier ladder x10 .. x1e6 / x1e-300); ordering: for every "
             "pair of valid cells x_i <= x_j => SPI_i <= SPI_j and x_i = x_j => equal, using ground monotonicity instances of the contracts; "
             "nodata / negative cells yield nodata. T = 3 (4 thorough) for safety, 3..4 (5) for ordering; gammastd_yxt and gammastd_grp.",
        note="Monotonicity of gammainc(a, .), ndtri, x/beta, k*x is assumed (contracts); an index whose scaled value coincides with the nodata "
             "number is indistinguishable from nodata. Trusted: pysym, z3, contracts.",
        technique="symbolic execution with division / cast obligations + z3 UF/LIRA with monotonicity lemma instances", ref="5 C08"),
    "C09": dict(
        text="Bounded symbolic verification: utils.get_calibration_indices (ungrouped and per group), utils.to_linspace and the window logic of "
             "PixelAlgorithms.spi executed symbolically with the time stamps, calibration_begin and calibration_end as z3 integers (on, between, "
             "before and after steps): a step is inside [start, stop) iff begin <= t <= end (per group on the group's sub-series, row g of the "
             "index table belonging to dense code g), codes of to_linspace are the ranks of the labels for every partition and label order, "
             "invalid windows (fewer than 2 steps, reversed, empty) raise ValueError, valid ones are accepted, the kernel receives exactly "
             "the inclusive window and the recorded attributes are the first / last step inside it. T <= 5/7, <= 3 groups.",
        note="pandas DatetimeIndex / searchsorted / np.unique / pandas.unique as contracts (validated against the libraries); grouped = "
             "per-group ungrouped on kernel level is C07's grouped-driver claim. Trusted: pysym, z3, contracts.",
        technique="symbolic execution of utils + accessor logic over index contracts, z3 LIA", ref="5 C09"),
    "C12": dict(
        text="Bounded symbolic verification of the part of the property that is Python source of the repository: the explicit pixel-loop "
             "drivers (ws2doptvplc_tyx with its numba.prange, autocorr, autocorr_tyx, gammastd_yxt, mann_kendall_trend_yxt) are executed on "
             "cubes of symbolic pixels (values, nodata, p symbolic; every gap pattern) with the per-pixel kernels uninterpreted: z3 decides "
             "that each pixel's result equals the same driver's result on that pixel alone and the documented per-pixel composition, that "
             "mirroring the pixel placement mirrors the results, that the prange loop run in reverse order builds the same results, and - from "
             "the evaluator's per-iteration access log - that no buffer allocated before the parallel loop is written by one iteration and "
             "touched by another (data-race freedom, hence independence of thread count and schedule). The real lazycompile wrapper is split "
             "into its atomic reads/writes of the shared closure cell (locks, try/finally supported) and N threads are interleaved by a "
             "symbolic schedule (z3 integer time stamps): over all schedules of 2..5 threads every call goes to a compiled function and "
             "every activation reaches its call. The explicit dask path of the autocorr accessor is executed over a dask-backed contract "
             "(block function, whole time axis, dropped axis, declared dtype). Counterexamples are replayed on the compiled code (joint vs alone, 1 vs 16 threads, threads "
             "racing through the real wrapper with a slow compile step, lazy vs eager under chunkings x schedulers).",
        note="PARTIAL: dask graph construction/execution, schedulers, chunking, apply_ufunc, Numba's threading layer / compile lock / parfor "
             "lowering are NOT Python source of the repository and are outside (the NAMES of the explicit dask layers are the accessor's own code and are checked); cubes 2x2 px x 4 "
             "steps (thorough 3x1, 1x3, 5 steps). Trusted: pysym incl. its prange model, the schedule encoder, z3.",
        technique="symbolic execution with uninterpreted per-pixel kernels + z3 UF/LRA (2-run locality, race obligations from access logs); "
                  "symbolic-schedule bounded model checking of the lazycompile wrapper in z3 LIA", ref="5 C12"),
}

ADDED = {
    "C01": " Also long series (n = 140; zero-weight runs of 40-75 steps at either end; thorough to n = 300) with y symbolic at four samples; "
           "the replayer checks the exact-rational clause by running the interpreted source on Fractions.",
    "C02": " Missing cells may be encoded partly as placeholder and partly as NaN / inf; pixels below the minimum valid count with non-finite cells.",
    "C04": " Exactly two / three valid cells on short series; an lc raster may not lose its labels before apply_ufunc.",
    "C05": " Accessor dispatch is decided per apply_ufunc call under its path guard with p symbolic.",
    "C07": " Numba's unstable argsort is a contract (ties in either order); float ufuncs on 8/16-bit integer arrays are single precision "
           "(narrow-arithmetic obligations).",
    "C08": " spi's nodata resolution (argument wins, ANY value incl. 0; else attribute; else ValueError) with argument and attribute symbolic.",
    "C10": " mktrend accessor dispatch for any declared nodata incl. 0; the replayer has a ladder of integer series closest to the 5 % boundary.",
    "C11": " Every accessor attribute element-wise equal to the scalar class for any time of day; comparisons raise nothing.",
    "C14": " Observations of either sign in the grouped SPI driver (internal scratch cells), prange race obligations of the tyx driver.",
    "C16": " The explicit dask graph of zonal.mean: block-call wiring and layer names that separate calls differing in zone raster / cube / dtype. The accessor hands zone rasters of every integer dtype to the kernel with values and zone nodata intact (symbolic over the dtype range).",
    "C17": " Explicit nodata argument wins over a different attribute (both symbolic); each window's term may mention only its own cells.",
    "C18": " croo with the time dimension in last / middle position.",
    "C19": " Histories on one object: an earlier aggregation, the axis relabelled in place, then the call under test.",
    "C20": " No gufunc argument may be declared with a fixed memory layout.",
}

NOT_APPLICABLE = {
    "C13": "Compares Numba/LLVM machine code (incl. cython_special pointers) with the interpreter; translating that IR "
           "(floating point throughout) to SMT is out of reach with the installed tools.",
}

PENDING = "check not built yet in this round (planned in DESIGN.md section 5); not claimed until it runs"


def main():
    props = [json.loads(l) for l in open(os.path.join(HERE, "properties.jsonl"))]
    checks, na = [], []
    for p in props:
        pid = p["id"]
        if pid in CLAIMED and os.path.exists(os.path.join(HERE, "harness", f"{pid}.py")):
            c = CLAIMED[pid]
            checks.append({
                "property_id": pid,
                "quick_cmd": f"./check {pid} --tier quick",
                "thorough_cmd": f"./check {pid} --tier thorough",
                "evidence_file": f"/verif/evidence/{pid}.json",
                "replay_cmd_template": f"./check {pid} --replay {{path}}",
                "engine": "pysym+z3",
                "level_claimed": {"category": "model_checking", "text": c["text"] + ADDED.get(pid, ""), "design_ref": c["ref"]},
                "level_note": c["note"],
                "technique": c["technique"],
            })
        else:
            na.append({"property_id": pid, "reason": NOT_APPLICABLE.get(pid, PENDING)})
    man = {
        "version": 1,
        "setup_cmd": "python3-vt -c \"import z3, sys; sys.path.insert(0, '/verif'); import pysym.interp\"",
        "hooks": {"guard": "HDC_ALGO_VERIF", "enable": "no source hooks are needed: the evaluator reads /repo's sources, the replayer calls public functions",
                  "baseline_off_cmd": "cd /repo && /venv/bin/python -m pytest -ra -q -p no:cacheprovider --timeout=900 --continue-on-collection-errors",
                  "source_commits": [], "add_only": True},
        "engines": [
            {"name": "pysym+z3", "path": "/verif/pysym", "serves_properties": [c["property_id"] for c in checks],
             "kind_free_text": "if-converting symbolic evaluator over the repo's Python sources (regenerated each run) + z3 5.1; "
                               "replay of counterexamples on the compiled kernels under /venv"},
        ],
        "checks": checks,
        "not_applicable": na,
        "notes": "Exit codes: 0 held, 1 violation (VIOLATION line), 3 harness error (never a verdict). Fixes of genuine defects are "
                 "'fix:' commits in /repo, recorded in known_findings.json.",
    }
    json.dump(man, open(os.path.join(HERE, "MANIFEST.json"), "w"), indent=1)
    print(f"{len(checks)} checks, {len(na)} not applicable")


if __name__ == "__main__":
    main()
