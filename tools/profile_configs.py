#!/usr/bin/env python3
"""tools/profile_configs.py <PID> [substring filter] : run each configuration of a harness in-process with a time cap and
print verdict counts - for sizing tiers."""
import collections
import importlib
import signal
import sys
import time
import traceback

sys.path.insert(0, "/verif")
sys.setrecursionlimit(20000)
from harness import common as C  # noqa: E402


class TO(Exception):
    pass


def handler(s, f):
    raise TO()


def main():
    pid = sys.argv[1]
    flt = sys.argv[2] if len(sys.argv) > 2 else ""
    cap = int(sys.argv[3]) if len(sys.argv) > 3 else 120
    tier = sys.argv[4] if len(sys.argv) > 4 else "quick"
    mod = importlib.import_module(f"harness.{pid}")
    signal.signal(signal.SIGALRM, handler)
    known = C.load_known(pid)
    seen = set()
    for cfg in mod.configs(tier):
        key = str({k: v for k, v in cfg.items() if k != "valid"}) + str(len(cfg.get("valid", [])))
        if flt not in str(cfg) or key in seen:
            continue
        seen.add(key)
        w = C.Worker(pid, cfg, 20000, known)
        t = time.time()
        signal.alarm(cap)
        err = ""
        try:
            mod.worker(w, cfg)
        except TO:
            err = "TIMEOUT"
        except Exception:
            err = traceback.format_exc()[-500:]
        signal.alarm(0)
        print(cfg, round(time.time() - t, 1), dict(collections.Counter(q["verdict"] for q in w.res.queries)), "folded", w.res.folded,
              "cands", len(w.res.candidates), err, flush=True)


if __name__ == "__main__":
    main()
