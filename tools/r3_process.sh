#!/bin/sh
# tools/r3_process.sh <PID> : confirm round-3 seeds A, B of a property from /tmp/r3/<PID>/out (scratch worktree, suite, demo) and sweep the kept ones
PID="$1"
for X in A B; do
  if [ -f /tmp/r3/$PID/out/$X.patch.diff ]; then
    SEED_SRC=/tmp/r3 SEED_NAME=$PID-R3$X sh /verif/tools/confirm_seed.sh $PID $X
    if [ -d /verif/seeded/$PID-R3$X ]; then
      cp /tmp/r3/$PID/out/$X.meta.json /verif/seeded/$PID-R3$X/agent_meta.json 2>/dev/null
      sh /verif/tools/seed_sweep.sh $PID-R3$X
    fi
  fi
done
