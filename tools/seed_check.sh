#!/bin/sh
# tools/seed_check.sh <seed dir name> [property id] : apply a kept seed in a scratch worktree of /repo HEAD and run ONLY the
# property's quick check against it (HDC_REPO); updates the check fields of seeded/<name>/result.json.
# (tools/seed_sweep.sh additionally re-confirms test suite + demonstration; this one is for re-sweeps after the checks changed.)
NAME="$1"
PID=${2:-$(echo "$NAME" | cut -d- -f1)}
SD=/verif/seeded/$NAME
WT=/tmp/seedchk2/$NAME
rm -rf "$WT"; mkdir -p /tmp/seedchk2
git -C /repo worktree add -f "$WT" HEAD >/dev/null 2>&1 || exit 9
cd "$WT" || exit 9
if ! git apply "$SD/patch.diff" 2>/dev/null; then
  echo "$NAME: patch does not apply"; cd /; git -C /repo worktree remove --force "$WT"; exit 9
fi
mkdir -p /tmp/seedchk2/$NAME.verif
cd /verif && HDC_REPO="$WT" VERIF_EVIDENCE_DIR=/tmp/seedchk2/$NAME.verif ./check "$PID" --tier quick >/tmp/seedchk2/$NAME.check.log 2>&1; CRC=$?
CL=$(grep "^\[$PID\]" /tmp/seedchk2/$NAME.check.log | tail -1 | tr -d '"')
python3 /verif/tools/seed_result.py "$SD/result.json" "$CRC" "$CL" "$PID" "$NAME"
cd /; git -C /repo worktree remove --force "$WT"; rm -rf /tmp/seedchk2/$NAME.verif
