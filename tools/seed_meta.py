#!/usr/bin/env python3
"""Write seeded/<name>/meta.json from the table below plus result.json (tools/seed_sweep.sh) and confirm.json."""
import json
import os

HERE = os.path.dirname(os.path.dirname(os.path.abspath(__file__)))

TABLE = {
    "C01-A": ("C01", "ws2d: the right-hand-side products are guarded by `if w[i] != 0`; row 1 has no else branch, so the carry term -c[0]*z[0] is dropped when w[1] == 0",
              "a weight vector whose second entry is zero while the first sample contributes"),
    "C01-B": ("C01", "ws2d: a guard for unsupported short series is written `if m < 4` with m = n - 1, so series of length 4 are returned unsmoothed", "n == 4"),
    "C02-A": ("C02", "ws2doptv: the V-curve fit term drops the validity weight, so `placeholder - z` at missing cells enters the lambda selection",
              "a gap plus a placeholder value that moves the grid arg-min (e.g. nodata inside the data range)"),
    "C02-B2": ("C02", "ws2dwcv / ws2dwcvp: minimum valid count guard `n > 4` becomes `n >= 4` (rebased onto the fixed tree)", "a pixel with exactly 4 valid cells"),
    "C03-A2": ("C03", "ws2dpgu: the final solve recomputes the envelope weights from the last curve (an 11th reweighting pass) instead of reusing the last pass's weights (rebased)",
               "a series on which the reweighting has not settled after 10 passes (cycling; p = 0.99 / 0.999)"),
    "C03-B": ("C03", "whits: `lmda = 10 ** np.asarray(sg)` drops the sgrid's dimension names, so it is aligned with the cube by position", "a per-pixel sgrid whose dims are in another order than the cube's"),
    "C04-A": ("C04", "ws2doptv: the minimum scan stops at the first local minimum of V (`else: break`)", "a V-curve with a local dip before the grid minimum, srange >= 4 entries"),
    "C04-B": ("C04", "whitsvc: `if p and p != 0.5` sends p == 0.5 to the symmetric kernel", "exactly p = 0.5 with srange"),
    "C05-A2": ("C05", "ws2dwcv / ws2dwcvp: the first GCV pass uses weights that ignore the nodata mask (rebased)", "series with nodata cells"),
    "C05-B2": ("C05", "ws2dwcv / ws2dwcvp: the lambda scan breaks once the score has risen twice in a row (rebased)", "a grid of >= 4 entries and a GCV curve that is not unimodal on it"),
    "C06-B": ("C06", "ws2doptv: residual loop fused with the first-difference loop, dropping the last time step's residual from the fit term", "comparison with the reversed series"),
    "C07-A2": ("C07", "gammastd: `if p_pos < 0.1` with p_pos = 1 - p_zero instead of `p_zero > 0.9`", "a pixel with exactly 90 % zeros (1 - 0.9 < 0.1 only in floating point)"),
    "C07-B2": ("C07", "gammastd: nodata dropped before the calibration window is applied, so the window selects shifted observations", "a calibration sub-window with nodata before or inside it"),
    "C08-B": ("C08", "gammastd_yxt: output buffer np.zeros instead of full_like(nodata); unfittable non-empty pixels are never written", "an unfittable pixel that still holds data (all zeros, > 90 % zeros, dry window)"),
    "C09-A": ("C09", "get_calibration_indices: stop = searchsorted(end) left, then +1 unless at the end of the axis", "calibration_end strictly between two time steps (of the axis or of a group's sub-series)"),
    "C09-B": ("C09", "get_calibration_indices: rows iterate over pd.unique(groups) (order of first appearance) instead of range(num_groups)", "group codes that do not first appear in ascending order, window not aligned with the cycle"),
    "C10-A": ("C10", "mk_sens_slope: pairwise differences computed as int16 array arithmetic (wraps)", "an int16 series with a pair differing by more than 32767"),
    "C10-B": ("C10", "mk_variance_s: tie groups counted as runs of the sorted series, last run never flushed", "the maximum value occurs at least twice and S != 0"),
    "C11-A": ("C11", "Dekad.ndays from calendar.mdays plus a year % 4 leap rule", "February d3 of a non-leap century year (100, 200, 500, 1900, ...)"),
    "C11-B": ("C11", "Dekad.__str__ built with strftime('%Y%m'): glibc does not zero-pad years below 1000", "years 1..999"),
    "C14-A": ("C14", "ws2d: band arrays c and e allocated with n-1 / n-2 elements", "series of length 2 or 3"),
    "C14-B": ("C14", "gammastd_grp: the write of nodata for an all-nodata group is dropped", "a group whose observations are all nodata"),
    "C15-A": ("C15", "autocorr_1d_float: per-element float64 casts removed, products formed in the input dtype", "float32 data with a large mean relative to its spread"),
    "C15-B": ("C15", "PixelAlgorithms.autocorr: `if not nodata` treats nodata = 0 as unset", "an integer cube with attrs['nodata'] == 0 and missing cells"),
    "C16-A2": ("C16", "do_mean: per-zone sums accumulated in the input dtype (rebased)", "int16 / uint8 rasters whose zone sum leaves the dtype"),
    "C16-B": ("C16", "ZonalStatistics.mean: dask layer name no longer depends on the zone raster", "two zonations of the same data with the same name evaluated in one dask graph"),
    "C17-A": ("C17", "RollingWindowAlgos.sum casts the input to the output dtype (float32) before the kernel", "int32 / int64 data with a sentinel that float32 rounds (e.g. 2147483647)"),
    "C17-B": ("C17", "mean_grp: accumulator initialised once before the group loop and carried over", "an all-nodata group after a non-empty one"),
    "C18-A": ("C18", "lroo: positions of ones collected into np.empty_like(data) (uint8): positions wrap modulo 256", "a time axis longer than 256 steps with a run crossing position 255/256"),
    "C18-B": ("C18", "croo: latest value read from the last STORED step of the unsorted input", "a time axis not stored in ascending order"),
    "C19-A": ("C19", "_iteragg: loop stops when the window's FIRST step falls before `end`", "n >= 2 with an explicit end that is not the first step"),
    "C19-B2": ("C19", "_iteragg: defaults set up front and lookups guarded by `if begin:` / `if end:` (rebased)", "a falsy on-axis label (0) on a numeric dimension"),
    "C20-A": ("C20", "tinterpolate: period boundary test `ll > labels[ii-1]` instead of `!=`", "contiguous labels that step down (dekad-of-year 36 -> 1)"),
    "C20-B": ("C20", "tinterpolate: weights rebuilt after the scatter as (temp != 0)", "an observation that is exactly 0 in a non-linear series"),
    "C01-R2": ("C01", "ws2d: band factors c and e allocated as float32 (z.astype(float32))", "large lambda (>= 1e2): relative error 1e-5 .. > 1, one ZeroDivisionError at 1e8"),
    "C02-R2": ("C02", "ws2dpgu: `ww = w * p1; ww[envelope] = p` - cells above the curve get weight p regardless of validity", "p given, a missing cell and a negative fitted curve at that cell"),
    "C03-R2": ("C03", "ws2d: early return `if w.sum() <= 1: return y`, which fires for the fractional p / 1-p weights", "whits(..., p=...) on a pixel with exactly two valid observations"),
    "C04-R2": ("C04", "ws2doptvplc: `lc >= 0.5` instead of `lc > 0.5` (gufunc only)", "lag-1 correlation exactly 0.5 and an optimum outside the overlap of the two grids"),
    "C05-R2": ("C05", "ws2dwcv: eigenvalues computed with the valid count n instead of the series length m", "missing cells (n < m)"),
    "C06-R2": ("C06", "robust GCV: `sel` excludes observations whose value is 0 (yv != 0)", "robust=True and valid observations exactly equal to 0; then smooth(y+c) != smooth(y)+c"),
    "C07-R2": ("C07", "gammastd: zero/valid counting on the calibration slice - p_zero is the share of zeros inside the window", "exact zeros and a calibration sub-window with a different zero share"),
    "C08-R2": ("C08", "gammastd_grp: `valid_ix = (res != nodata) & np.isfinite(res)` - an infinite index skips the clamp", "grouped path, an observation far outside a tight calibration regime"),
    "C09-R2": ("C09", "get_calibration_indices: np.datetime64(v, 'D') floors both bounds to midnight", "a bound with a time of day (noon-stamped or sub-daily axis)"),
    "C10-R2": ("C10", "mann_kendall_trend_1d: early exit for S == 0 returning slope 0", "a tie-free series with S = 0 and a non-zero median slope (n = 0 or 1 mod 4)"),
    "C11-R2": ("C11", "Dekad.__lt__ returns self._dkd <= other._dkd", "a strict < between operands of the same dekad"),
    "C14-R2": ("C14", "do_mean: branch-free accumulation `result[tix, z_idx, 0] += pix * valid` indexes with the zone nodata value", "a zone nodata value outside [-num_zones, num_zones)"),
    "C15-R2": ("C15", "autocorr_1d_int: gap rescaling of var_Y uses nx instead of ny", "exactly one end of the record is nodata (nx != ny)"),
    "C16-R2": ("C16", "do_mean: per-step scratch accumulators reset with `zsum *= 0` after an empty zone stored NaN there", "a zone empty at step t and non-empty at a later step"),
    "C17-R2": ("C17", "rolling_sum: empty window detected with `if yy[ii] == 0`", "a complete window whose valid cells sum to exactly 0"),
    "C18-R2": ("C18", "croo simplified to `(xsort != 1).argmax('time')`", "a pixel that is 1 at every step"),
    "C19-R2": ("C19", "_iteragg: default begin_ix = len(self._obj) instead of sizes[dim]", "default begin with an aggregated dimension that is not the leading axis"),
    "C20-R2": ("C20", "tinterpolate: round(v / jj) replaced by int(v / jj + 0.5)", "negative period means"),
}

DETECTION = {
    "C09-R3A": "not flagged by the C09 check (it covers the index computation, not the grouped kernel); the same change is caught by the C07 check "
               "(unstable argsort contract: ties reversed; long grouped replay): HDC_REPO=<worktree> ./check C07 exits 1 (seed C07-R3B is the same edit)",
    "C08-R3A": "not caught: the check stops with exit 3 (scipy.special.gammaincc has no contract); the defect itself exists only in floating point "
               "(the CDF rounding to exactly 1.0) and is outside the exact-real regime",
    "C02-R2": "not flagged by the C02 check (the kernel zero-fills masked cells, so both placeholder runs agree); caught by the C03 check "
              "(kernel differs from the reference expectile model): HDC_REPO=<worktree> ./check C03 exits 1",
    "C03-R2": "not flagged by the C03 check (its reference model shares ws2d with the kernel); caught by the C01 check on graded weight "
              "vectors whose sum is <= 1: HDC_REPO=<worktree> ./check C01 exits 1",
}


def main():
    sd = os.path.join(HERE, "seeded")
    for name in sorted(os.listdir(sd)):
        d = os.path.join(sd, name)
        if not os.path.isdir(d):
            continue
        if name in TABLE:
            prop, change, needs = TABLE[name]
        elif os.path.exists(os.path.join(d, "agent_meta.json")):
            am = json.load(open(os.path.join(d, "agent_meta.json")))
            prop, change, needs = name.split("-")[0], am.get("change", ""), am.get("needs_to_manifest", "")
        else:
            continue
        meta = {"seed": name, "breaks_property": prop, "change": change, "needs_to_manifest": needs,
                "origin": "written by a fresh sub-agent that was given only the property record and a scratch worktree; "
                          "confirmed here in a scratch worktree of /repo HEAD (tools/confirm_seed.sh, tools/seed_sweep.sh)"}
        for f in ("confirm.json", "result.json"):
            fp = os.path.join(d, f)
            if os.path.exists(fp):
                try:
                    meta[f.split(".")[0]] = json.load(open(fp))
                except Exception:
                    pass
        r = meta.get("result", {})
        if name in DETECTION:
            meta["detection"] = DETECTION[name]
        elif r:
            meta["detection"] = ("caught: quick check exits 1 with VIOLATION lines" if r.get("check_exit") == 1 else
                                 f"not caught (check exit {r.get('check_exit')})")
        meta["what_was_run"] = ["git apply patch.diff in a scratch worktree of /repo HEAD", "/venv/bin/python demo.py (without and with the patch)",
                                "/venv/bin/python -m pytest -q tests (with the patch)", f"HDC_REPO=<worktree> ./check {prop} --tier quick"]
        json.dump(meta, open(os.path.join(d, "meta.json"), "w"), indent=1)
        print(name, meta.get("detection"))


if __name__ == "__main__":
    main()
