#!/usr/bin/env python3
"""Update the check fields of a seed's result.json (used by tools/seed_check.sh)."""
import json
import subprocess
import sys

f, rc, cl, pid, name = sys.argv[1:6]
try:
    d = json.load(open(f))
except Exception:
    d = {"seed": name, "property": name.split("-")[0]}
own = name.split("-")[0]
head = subprocess.run(["git", "-C", "/repo", "rev-parse", "--short", "HEAD"], capture_output=True, text=True).stdout.strip()
if pid == own:
    d["check_exit"] = int(rc)
    d["check_summary"] = cl
    d["check_cmd"] = f"HDC_REPO=<patched worktree> ./check {pid} --tier quick"
    d["repo_head"] = head
else:
    d.setdefault("other_checks", {})[pid] = {"check_exit": int(rc), "check_summary": cl}
json.dump(d, open(f, "w"))
print(name, pid, rc, cl[:150])
