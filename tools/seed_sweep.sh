#!/bin/sh
# tools/seed_sweep.sh <seed dir name> : re-confirm a kept seed at /repo HEAD in a scratch worktree (suite passes with the patch, demo
# passes without and fails with it) and run the property's quick check against the patched worktree (HDC_REPO). Writes
# seeded/<name>/result.json. The worktree is removed afterwards.
NAME="$1"
PID=$(echo "$NAME" | cut -d- -f1)
SD=/verif/seeded/$NAME
WT=/tmp/seedsweep/$NAME
rm -rf "$WT"; mkdir -p /tmp/seedsweep
git -C /repo worktree add -f "$WT" HEAD >/dev/null 2>&1 || exit 9
cd "$WT" || exit 9
/venv/bin/python "$SD/demo.py" >/dev/null 2>&1; D0=$?
if git apply "$SD/patch.diff" 2>/dev/null; then APPLY=true; else APPLY=false; fi
D1=-1; T=-1; TL=""; CRC=-1; CL=""
if [ $APPLY = true ]; then
  /venv/bin/python "$SD/demo.py" >/dev/null 2>&1; D1=$?
  /venv/bin/python -m pytest -q -p no:cacheprovider --timeout=900 tests >/tmp/seedsweep/$NAME.tests.log 2>&1; T=$?
  TL=$(tail -1 /tmp/seedsweep/$NAME.tests.log | tr -d '"')
  mkdir -p /tmp/seedsweep/$NAME.verif
  cd /verif && HDC_REPO="$WT" VERIF_EVIDENCE_DIR=/tmp/seedsweep/$NAME.verif ./check "$PID" --tier quick >/tmp/seedsweep/$NAME.check.log 2>&1; CRC=$?
  CL=$(grep "^\[$PID\]" /tmp/seedsweep/$NAME.check.log | tail -1 | tr -d '"')
fi
HEAD=$(git -C /repo rev-parse --short HEAD)
printf '{"seed": "%s", "property": "%s", "repo_head": "%s", "patch_applies": %s, "demo_exit_unpatched": %s, "demo_exit_patched": %s, "test_suite_exit_with_patch": %s, "test_suite_summary": "%s", "check_cmd": "HDC_REPO=<patched worktree> ./check %s --tier quick", "check_exit": %s, "check_summary": "%s"}\n' \
  "$NAME" "$PID" "$HEAD" "$APPLY" "$D0" "$D1" "$T" "$TL" "$PID" "$CRC" "$CL" > "$SD/result.json"
cat "$SD/result.json"
cd /; git -C /repo worktree remove --force "$WT"; git -C /repo worktree prune
