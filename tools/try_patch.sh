#!/bin/sh
# tools/try_patch.sh <patch.diff> <property id> [tier]  - apply a patch to /repo, run the check, always undo.
P="$1"; ID="$2"; TIER="${3:-quick}"
cd /repo || exit 9
if ! git diff --quiet; then echo "/repo not clean"; exit 9; fi
git apply "$P" || { echo "patch does not apply"; exit 9; }
cd /verif && ./check "$ID" --tier "$TIER" > /tmp/try_patch.out 2>&1
RC=$?
git -C /repo checkout -- .
grep -E "^(VIOLATION|KNOWN-FINDING)" /tmp/try_patch.out | head -5
tail -2 /tmp/try_patch.out
echo "exit=$RC"
